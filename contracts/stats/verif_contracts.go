//go:build verif

package stats

import (
	"math"
	"time"

	"github.com/maypok86/otter/v2/internal/xsync"
)

// Ghost counters of the statistics recorder attached to one cache (exactly one recorder per cache).

func implies(a, b bool) bool { return !a || b }

func ghost_hits() uint64           { panic("ghost") }
func ghost_misses() uint64         { panic("ghost") }
func ghost_evictions() uint64      { panic("ghost") }
func ghost_evictionWeight() uint64 { panic("ghost") }
func ghost_loadSuccess() uint64    { panic("ghost") }
func ghost_loadFailure() uint64    { panic("ghost") }

// the sum a striped adder holds (shared with internal/xsync/verif_contracts.go)
func ghost_adderValue(a *xsync.Adder) uint64 { panic("ghost") }

func satAddU64(a, b uint64) uint64 {
	if a+b < a {
		return math.MaxUint64
	}
	return a + b
}

func clampDuration(v uint64) time.Duration {
	if v > uint64(math.MaxInt64) {
		return time.Duration(math.MaxInt64)
	}
	return time.Duration(v)
}

// The recorder is a user-supplied object (A-callbacks): these contracts define the ghost log the C20
// obligations are stated over; the Counter implementation is verified against them.

//@ iface Recorder.RecordHits : C20
//@   assumed definition of the ghost statistics log (the recorder is a user-supplied object)
//@   modifies ghost_hits()
//@   ensures [C20:hits-add] ghost_hits() == pre(ghost_hits()) + uint64(count)

//@ iface Recorder.RecordMisses : C20
//@   assumed definition of the ghost statistics log (the recorder is a user-supplied object)
//@   modifies ghost_misses()
//@   ensures [C20:misses-add] ghost_misses() == pre(ghost_misses()) + uint64(count)

//@ iface Recorder.RecordEviction : C20
//@   assumed definition of the ghost statistics log (the recorder is a user-supplied object)
//@   modifies ghost_evictions(), ghost_evictionWeight()
//@   ensures [C20:eviction-add] ghost_evictions() == pre(ghost_evictions()) + 1 && ghost_evictionWeight() == pre(ghost_evictionWeight()) + uint64(weight)

//@ iface Recorder.RecordLoadSuccess : C20
//@   assumed definition of the ghost statistics log (the recorder is a user-supplied object)
//@   modifies ghost_loadSuccess()
//@   ensures [C20:load-success-add] ghost_loadSuccess() == pre(ghost_loadSuccess()) + 1

//@ iface Recorder.RecordLoadFailure : C20
//@   assumed definition of the ghost statistics log (the recorder is a user-supplied object)
//@   modifies ghost_loadFailure()
//@   ensures [C20:load-failure-add] ghost_loadFailure() == pre(ghost_loadFailure()) + 1

// ---------------------------------------------------------------------------------------------
// The Counter implementation: each Record* method adds to its own counter and to no other, Snapshot reports each
// counter in its own field.
// ---------------------------------------------------------------------------------------------

//@ func (*Counter).RecordHits : C20
//@   requires c.hits != nil
//@   modifies ghost_adderValue(c.hits)
//@   ensures [C20:counter-hits-add] ghost_adderValue(c.hits) == pre(ghost_adderValue(c.hits)) + uint64(count)

//@ func (*Counter).RecordMisses : C20
//@   requires c.misses != nil
//@   modifies ghost_adderValue(c.misses)
//@   ensures [C20:counter-misses-add] ghost_adderValue(c.misses) == pre(ghost_adderValue(c.misses)) + uint64(count)

//@ func (*Counter).RecordEviction : C20
//@   modifies c.evictions, c.evictionWeight
//@   ensures [C20:counter-eviction-add] c.evictions.Load() == pre(c.evictions.Load()) + 1 && c.evictionWeight.Load() == pre(c.evictionWeight.Load()) + uint64(weight)

//@ func (*Counter).RecordLoadSuccess : C20
//@   modifies c.loadSuccesses, c.totalLoadTime
//@   ensures [C20:counter-load-success-add] c.loadSuccesses.Load() == pre(c.loadSuccesses.Load()) + 1 && c.totalLoadTime.Load() == pre(c.totalLoadTime.Load()) + uint64(loadTime)

//@ func (*Counter).RecordLoadFailure : C20
//@   modifies c.loadFailures, c.totalLoadTime
//@   ensures [C20:counter-load-failure-add] c.loadFailures.Load() == pre(c.loadFailures.Load()) + 1 && c.totalLoadTime.Load() == pre(c.totalLoadTime.Load()) + uint64(loadTime)

//@ func (*Counter).Snapshot : C20
//@   requires c.hits != nil && c.misses != nil
//@   modifies
//@   ensures [C20:snapshot-reports-each-counter-in-its-field] result.Hits == ghost_adderValue(c.hits) && result.Misses == ghost_adderValue(c.misses) && result.Evictions == c.evictions.Load() && result.EvictionWeight == c.evictionWeight.Load() && result.LoadSuccesses == c.loadSuccesses.Load() && result.LoadFailures == c.loadFailures.Load() && result.TotalLoadTime == clampDuration(c.totalLoadTime.Load())

//@ func NewCounter : C20
//@   ensures [C20:new-counter-is-zero] result != nil && result.hits != nil && result.misses != nil && result.hits != result.misses && ghost_adderValue(result.hits) == 0 && ghost_adderValue(result.misses) == 0 && result.evictions.Load() == 0 && result.evictionWeight.Load() == 0 && result.loadSuccesses.Load() == 0 && result.loadFailures.Load() == 0 && result.totalLoadTime.Load() == 0

//@ func saturatedAdd : C20
//@   modifies
//@   ensures [C20:saturating-sum] result == satAddU64(a, b)

//@ func (Stats).Requests : C20
//@   modifies
//@   ensures [C20:requests-are-hits-plus-misses] result == satAddU64(s.Hits, s.Misses)

//@ func (Stats).Loads : C20
//@   modifies
//@   ensures [C20:loads-are-successes-plus-failures] result == satAddU64(s.LoadSuccesses, s.LoadFailures)

//@ func (Stats).Plus : C20
//@   requires s.TotalLoadTime >= 0 && other.TotalLoadTime >= 0
//@   modifies
//@   ensures [C20:plus-adds-fieldwise-saturating] result.Hits == satAddU64(s.Hits, other.Hits) && result.Misses == satAddU64(s.Misses, other.Misses) && result.Evictions == satAddU64(s.Evictions, other.Evictions) && result.EvictionWeight == satAddU64(s.EvictionWeight, other.EvictionWeight) && result.LoadSuccesses == satAddU64(s.LoadSuccesses, other.LoadSuccesses) && result.LoadFailures == satAddU64(s.LoadFailures, other.LoadFailures)
