//go:build verif

package stats

// Ghost counters of the statistics recorder attached to one cache (exactly one recorder per cache).

func implies(a, b bool) bool { return !a || b }

func ghost_hits() uint64           { panic("ghost") }
func ghost_misses() uint64         { panic("ghost") }
func ghost_evictions() uint64      { panic("ghost") }
func ghost_evictionWeight() uint64 { panic("ghost") }
func ghost_loadSuccess() uint64    { panic("ghost") }
func ghost_loadFailure() uint64    { panic("ghost") }

// The recorder is a user-supplied object (A-callbacks): these contracts define the ghost log the C20
// obligations are stated over; the Counter implementation is verified against them.

//@ iface Recorder.RecordHits : C20
//@   assumed definition of the ghost statistics log (the recorder is a user-supplied object)
//@   modifies ghost_hits()
//@   ensures [C20:hits-add] ghost_hits() == pre(ghost_hits()) + uint64(count)

//@ iface Recorder.RecordMisses : C20
//@   assumed definition of the ghost statistics log (the recorder is a user-supplied object)
//@   modifies ghost_misses()
//@   ensures [C20:misses-add] ghost_misses() == pre(ghost_misses()) + uint64(count)

//@ iface Recorder.RecordEviction : C20
//@   assumed definition of the ghost statistics log (the recorder is a user-supplied object)
//@   modifies ghost_evictions(), ghost_evictionWeight()
//@   ensures [C20:eviction-add] ghost_evictions() == pre(ghost_evictions()) + 1 && ghost_evictionWeight() == pre(ghost_evictionWeight()) + uint64(weight)

//@ iface Recorder.RecordLoadSuccess : C20
//@   assumed definition of the ghost statistics log (the recorder is a user-supplied object)
//@   modifies ghost_loadSuccess()
//@   ensures [C20:load-success-add] ghost_loadSuccess() == pre(ghost_loadSuccess()) + 1

//@ iface Recorder.RecordLoadFailure : C20
//@   assumed definition of the ghost statistics log (the recorder is a user-supplied object)
//@   modifies ghost_loadFailure()
//@   ensures [C20:load-failure-add] ghost_loadFailure() == pre(ghost_loadFailure()) + 1
