//go:build verif

package otter

import (
	"context"
	"errors"
	"math"
	"os"
	"sync"
	"time"

	"github.com/maypok86/otter/v2/internal/deque"
	"github.com/maypok86/otter/v2/internal/expiration"
	"github.com/maypok86/otter/v2/internal/generated/node"
	"github.com/maypok86/otter/v2/internal/hashmap"
	"github.com/maypok86/otter/v2/stats"
)

// ---------------------------------------------------------------------------------------------
// Specification vocabulary (compiled only under the verif tag; nothing in a normal build can call it)
// ---------------------------------------------------------------------------------------------

var _ = errors.Is

func implies(a, b bool) bool  { return !a || b }
func same[T any](a, b T) bool { panic("spec") }

// mutexHeld: the lock flag of a mutex in the sequential model
func mutexHeld(m *sync.Mutex) bool { panic("spec") }
func iff(a, b bool) bool      { return a == b }

// abstract node fields (shared with internal/generated/node/verif_contracts.go)
func ghost_key[K comparable, V any](n node.Node[K, V]) K               { panic("ghost") }
func ghost_value[K comparable, V any](n node.Node[K, V]) V             { panic("ghost") }
func ghost_expiresAt[K comparable, V any](n node.Node[K, V]) int64     { panic("ghost") }
func ghost_refreshableAt[K comparable, V any](n node.Node[K, V]) int64 { panic("ghost") }
func ghost_weight[K comparable, V any](n node.Node[K, V]) uint32       { panic("ghost") }
func ghost_state[K comparable, V any](n node.Node[K, V]) uint32        { panic("ghost") }
func ghost_queueType[K comparable, V any](n node.Node[K, V]) uint8     { panic("ghost") }
func ghost_hasExp() bool                                               { panic("ghost") }
func ghost_hasRefresh() bool                                           { panic("ghost") }
func ghost_hasWeight() bool                                            { panic("ghost") }
func ghost_hasSize() bool                                              { panic("ghost") }
func ghost_hasState() bool                                             { panic("ghost") }
func ghost_hasExpLinks() bool                                          { panic("ghost") }

// the abstract table: ghost_tbl(m, k) is the entry stored under k (nil when absent)
func ghost_tbl[K comparable, V any](m *hashmap.Map[K, V, node.Node[K, V]], k K) node.Node[K, V] {
	panic("ghost")
}

// policy membership: node n is linked in deque d / scheduled in the timer wheel
func ghost_inDeque[K comparable, V any](d *deque.Linked[K, V], n node.Node[K, V]) bool { panic("ghost") }
func ghost_inWheel[K comparable, V any](n node.Node[K, V]) bool                          { panic("ghost") }
func ghost_calls_evictNode() int                                                         { panic("ghost") }
func ghost_calls_expireNode() int                                                        { panic("ghost") }
func ghost_calls_deleteExpiredFromBucket() int                                           { panic("ghost") }
func ghost_calls_maintenance() int                                                       { panic("ghost") }
func ghost_calls_runTask() int                                                           { panic("ghost") }

// queueOf: the deque a node's queue type designates
func queueOf[K comparable, V any](p *policy[K, V], n node.Node[K, V]) *deque.Linked[K, V] {
	switch ghost_queueType(n) {
	case node.InWindowQueue:
		return p.window
	case node.InMainProbationQueue:
		return p.probation
	default:
		return p.protected
	}
}

func wfPolicy[K comparable, V any](p *policy[K, V]) bool {
	return p.window != nil && p.probation != nil && p.protected != nil && p.sketch != nil && p.window != p.probation && p.window != p.protected && p.probation != p.protected &&
		(p.sketch.isNotInitialized() || wfSketch(p.sketch))
}

// the in-flight load table
func ghost_calls[K comparable, V any](m *hashmap.Map[K, V, *call[K, V]], k K) *call[K, V] { panic("ghost") }

// linearization point of the last atomic table access: entry seen, entry installed, number of accesses
func ghost_lpCur[K comparable, V any](m *hashmap.Map[K, V, node.Node[K, V]]) node.Node[K, V] { panic("ghost") }
func ghost_lpNew[K comparable, V any](m *hashmap.Map[K, V, node.Node[K, V]]) node.Node[K, V] { panic("ghost") }
func ghost_lpCount[K comparable, V any](m *hashmap.Map[K, V, node.Node[K, V]]) int           { panic("ghost") }

func ghost_clpCur[K comparable, V any](m *hashmap.Map[K, V, *call[K, V]]) *call[K, V] { panic("ghost") }
func ghost_clpNew[K comparable, V any](m *hashmap.Map[K, V, *call[K, V]]) *call[K, V] { panic("ghost") }
func ghost_clpCount[K comparable, V any](m *hashmap.Map[K, V, *call[K, V]]) int      { panic("ghost") }

// number of wg.Done() calls on the wait group of a call (waiters released)
func ghost_wgDone[K comparable, V any](c *call[K, V]) int { panic("ghost") }

// ghost_released(c): the wait group of call c has been released at least once (set by sync.WaitGroup.Done)
func ghost_released[K comparable, V any](c *call[K, V]) bool { panic("ghost") }

// ghost_iter(): inside an invariant of a range-over-slice loop, the number of completed iterations
func ghost_iter() int { panic("ghost") }

// ghost_fileTruncated(f): the open that produced f truncated the file (os.Create, or os.OpenFile with O_TRUNC)
func ghost_fileTruncated(f *os.File) bool { panic("ghost") }

func mapHas[K comparable, V any](m map[K]V, k K) bool {
	_, ok := m[k]
	return ok
}

// keys of the innermost range-over-map iteration that have been visited so far
func ghost_visited[K comparable](k K) bool { panic("ghost") }

func ghost_calls_bulkLoad() int                            { panic("ghost") }
func ghost_ret_bulkLoad_0[K comparable, V any]() map[K]V   { panic("ghost") }
func ghost_ret_bulkLoad_1() error                          { panic("ghost") }

func ghost_chanSent[T any](ch <-chan T) int { panic("ghost") }
func ghost_calls_Error() int                                              { panic("ghost") }
func ghost_calls_doBulkCall() int                                         { panic("ghost") }
func ghost_calls_getNode() int                                            { panic("ghost") }
func ghost_calls_doCall() int                                             { panic("ghost") }
func ghost_calls_refreshKey() int                                         { panic("ghost") }
func ghost_calls_startCall() int                                          { panic("ghost") }
func ghost_last_startCall_c[K comparable, V any]() *call[K, V]            { panic("ghost") }
func ghost_last_startCall_shouldLoad() bool                               { panic("ghost") }

// specFresh: the entry is not yet due for a refresh
func specFresh[K comparable, V any](n node.Node[K, V], now int64) bool {
	return !ghost_hasRefresh() || (alive(n) && ghost_refreshableAt(n) > now)
}

// loader / completion-hook invocation log
func ghost_calls_load() int        { panic("ghost") }
func ghost_ret_load_0[V any]() V   { panic("ghost") }
func ghost_ret_load_1() error      { panic("ghost") }
func ghost_calls_afterFinish() int { panic("ghost") }
func ghost_calls_increment() int   { panic("ghost") }
func ghost_calls_SaveCacheTo() int  { panic("ghost") }
func ghost_calls_LoadCacheFrom() int { panic("ghost") }
func ghost_last_SaveCacheTo_result() error  { panic("ghost") }
func ghost_last_LoadCacheFrom_result() error { panic("ghost") }
func ghost_calls_fn() int          { panic("ghost") }
func ghost_ret_fn() error          { panic("ghost") }

// deletion-event log: number of handler invocations and the fields of the last event
func ghost_calls_onAtomicDeletion() int                     { panic("ghost") }
func ghost_arg_onAtomicDeletion_0[K comparable]() K         { panic("ghost") }
func ghost_arg_onAtomicDeletion_1[V any]() V                { panic("ghost") }
func ghost_arg_onAtomicDeletion_2() DeletionCause           { panic("ghost") }
func ghost_calls_onDeletion() int                           { panic("ghost") }
func ghost_arg_onDeletion_0[K comparable]() K               { panic("ghost") }
func ghost_arg_onDeletion_1[V any]() V                      { panic("ghost") }
func ghost_arg_onDeletion_2() DeletionCause                 { panic("ghost") }

// write buffer: events accepted; direct maintenance runs on behalf of a writer
func ghost_queued() int                                                    { panic("ghost") }
func ghost_calls_performCleanUp() int                                      { panic("ghost") }
func ghost_last_performCleanUp_t[K comparable, V any]() *task[K, V]        { panic("ghost") }
func ghost_last_notifyDeletion_key[K comparable]() K                       { panic("ghost") }
func ghost_last_notifyDeletion_value[V any]() V                            { panic("ghost") }
func ghost_last_notifyDeletion_cause() DeletionCause                       { panic("ghost") }
func ghost_last_runTask_t[K comparable, V any]() *task[K, V]               { panic("ghost") }
func ghost_calls_wait() int                                                { panic("ghost") }
func ghost_calls_bulkRefreshKeys() int                                     { panic("ghost") }
func ghost_calls_BulkLoad() int                                            { panic("ghost") }
func ghost_calls_newPanicError() int                                       { panic("ghost") }
func ghost_calls_BulkReload() int                                          { panic("ghost") }
func ghost_calls_Load() int                                                { panic("ghost") }
func ghost_calls_evictFromMain() int                                       { panic("ghost") }
func ghost_calls_scheduleDrainBuffers() int                                { panic("ghost") }
func ghost_calls_Reload() int                                              { panic("ghost") }

// ghost_waited(c): this operation has waited for call c (so c's outcome fields are final)
func ghost_waited[K comparable, V any](c *call[K, V]) bool { panic("ghost") }

// A-buffer: ghost_buffered(t) - the write buffer holds (owns) the event t. Only assumed facts talk about it: an event
// handed out by TryPop was buffered; the event a writer still holds after TryPush refused it is not.
func ghost_buffered[K comparable, V any](t *task[K, V]) bool { panic("ghost") }

// the value received by the last gob Decode into an Entry (see the encoding/gob model)
func ghost_decoded_Key[K comparable]() K     { panic("ghost") }
func ghost_decoded_Value[V any]() V          { panic("ghost") }
func ghost_decoded_ExpiresAtNano() int64     { panic("ghost") }
func ghost_decoded_RefreshableAtNano() int64 { panic("ghost") }
func ghost_decoded_Weight() uint32           { panic("ghost") }
func ghost_last_wait_c[K comparable, V any]() *call[K, V]                  { panic("ghost") }
func ghost_calls_expireNodes() int                                         { panic("ghost") }
func ghost_calls_evictNodes() int                                          { panic("ghost") }
func ghost_calls_DeleteExpired() int                                       { panic("ghost") }
func ghost_last_DeleteExpired_nowNanos() int64                             { panic("ghost") }
func ghost_last_maintenance_t[K comparable, V any]() *task[K, V]           { panic("ghost") }
func ghost_calls_afterWriteTask() int                                      { panic("ghost") }
func ghost_last_afterWriteTask_t[K comparable, V any]() *task[K, V]        { panic("ghost") }
func ghost_calls_getTask() int                                            { panic("ghost") }
func ghost_last_getTask_result[K comparable, V any]() *task[K, V]          { panic("ghost") }
func ghost_calls_notifyDeletion() int                                      { panic("ghost") }

// log of calls of the policy notification entry points
func ghost_calls_afterWrite() int                                           { panic("ghost") }
func ghost_last_afterWrite_n[K comparable, V any]() node.Node[K, V]         { panic("ghost") }
func ghost_last_afterWrite_old[K comparable, V any]() node.Node[K, V]       { panic("ghost") }
func ghost_calls_afterDelete() int                                          { panic("ghost") }
func ghost_last_afterDelete_deleted[K comparable, V any]() node.Node[K, V]  { panic("ghost") }
func ghost_calls_afterRead() int                                            { panic("ghost") }

func ghost_calls_mappingFunc() int { panic("ghost") }

// remapping function of Compute*: arguments it was called with and what it returned
func ghost_calls_remappingFunc() int            { panic("ghost") }
func ghost_arg_remappingFunc_0[V any]() V       { panic("ghost") }
func ghost_arg_remappingFunc_1() bool           { panic("ghost") }
func ghost_ret_remappingFunc_0[V any]() V       { panic("ghost") }
func ghost_ret_remappingFunc_1() ComputeOp      { panic("ghost") }

// element currently visited by an iteration over the table
func ghost_ranged[K comparable, V any]() node.Node[K, V] { panic("ghost") }

// last clock reading; clockRead: the clock has been read in this operation
func ghost_now() int64      { panic("ghost") }
func ghost_clockRead() bool { panic("ghost") }

// statistics log (shared with stats/verif_contracts.go)
func ghost_hits() uint64           { panic("ghost") }
func ghost_misses() uint64         { panic("ghost") }
func ghost_evictions() uint64      { panic("ghost") }
func ghost_evictionWeight() uint64 { panic("ghost") }
func ghost_loadSuccess() uint64    { panic("ghost") }
func ghost_loadFailure() uint64    { panic("ghost") }

// user-callback log: number of invocations and last result
func ghost_calls_ExpireAfterRead() int                { panic("ghost") }
func ghost_ret_ExpireAfterRead() time.Duration        { panic("ghost") }
func ghost_calls_ExpireAfterCreate() int              { panic("ghost") }
func ghost_ret_ExpireAfterCreate() time.Duration      { panic("ghost") }
func ghost_calls_ExpireAfterUpdate() int              { panic("ghost") }
func ghost_ret_ExpireAfterUpdate() time.Duration      { panic("ghost") }
func ghost_calls_RefreshAfterCreate() int             { panic("ghost") }
func ghost_ret_RefreshAfterCreate() time.Duration     { panic("ghost") }
func ghost_calls_RefreshAfterUpdate() int             { panic("ghost") }
func ghost_ret_RefreshAfterUpdate() time.Duration     { panic("ghost") }
func ghost_calls_RefreshAfterReload() int             { panic("ghost") }
func ghost_ret_RefreshAfterReload() time.Duration     { panic("ghost") }
func ghost_calls_RefreshAfterReloadFailure() int      { panic("ghost") }
func ghost_ret_RefreshAfterReloadFailure() time.Duration { panic("ghost") }
func ghost_calls_weigher() int                        { panic("ghost") }
func ghost_ret_weigher() uint32                       { panic("ghost") }
func ghost_calls_rand() int                           { panic("ghost") }
func ghost_ret_rand() uint32                          { panic("ghost") }
func ghost_calls_f() int                              { panic("ghost") }
func ghost_ret_f() time.Duration                      { panic("ghost") }

// cfg links the configuration flags of the cache to the node variant in use (one variant per cache).
func cfg[K comparable, V any](c *cache[K, V]) bool {
	return ghost_hasExp() == c.withExpiration && ghost_hasRefresh() == c.withRefresh && ghost_hasWeight() == c.isWeighted &&
		ghost_hasSize() == c.withEviction && ghost_hasState() == c.withMaintenance && ghost_hasExpLinks() == c.withExpiration &&
		c.withMaintenance == (c.withEviction || c.withExpiration) && c.withTime == (c.withExpiration || c.withRefresh) && wired(c)
}

// wired: the maintenance structures the configuration asks for exist and are well-formed (established by newCache,
// kept by every maintenance step).
func wired[K comparable, V any](c *cache[K, V]) bool {
	return c.singleflight != nil &&
		(!c.withEviction || (c.evictionPolicy != nil && wfPolicy(c.evictionPolicy) && c.evictionPolicy.maximum <= 1<<62)) &&
		(!c.withExpiration || (c.expirationPolicy != nil && expiration.SpecWfWheel(c.expirationPolicy)))
}

// taskWf: a write event names the node it is about, and an update names two different nodes.
func taskWf[K comparable, V any](t *task[K, V]) bool {
	return t.n != nil && (t.writeReason == addReason || t.writeReason == deleteReason || (t.writeReason == updateReason && t.old != nil && t.old != t.n))
}

// live: the entry exists and its deadline has not been reached.
func live[K comparable, V any](n node.Node[K, V], now int64) bool {
	return n != nil && !(ghost_hasExp() && ghost_expiresAt(n) <= now)
}

// satadd is the mathematical min(a+b, MaxInt64) for non-negative a, b.
func satadd(a, b int64) int64 {
	if a > math.MaxInt64-b {
		return math.MaxInt64
	}
	return a + b
}

func pickU64(c bool, a, b uint64) uint64 {
	if c {
		return a
	}
	return b
}

func pickInt(c bool, a, b int) int {
	if c {
		return a
	}
	return b
}

func pickNode[K comparable, V any](c bool, a, b node.Node[K, V]) node.Node[K, V] {
	if c {
		return a
	}
	return b
}

func pickV[V any](c bool, a, b V) V {
	if c {
		return a
	}
	return b
}

func pickCall[K comparable, V any](c bool, a, b *call[K, V]) *call[K, V] {
	if c {
		return a
	}
	return b
}

func pickCause(c bool, a, b DeletionCause) DeletionCause {
	if c {
		return a
	}
	return b
}

// liveAt: an entry with deadline exp is visible at clock value now.
func liveAt[K comparable, V any](n node.Node[K, V], exp int64, now int64) bool {
	return n != nil && !(ghost_hasExp() && exp <= now)
}

func pickI64(c bool, a, b int64) int64 {
	if c {
		return a
	}
	return b
}

func weightOf[K comparable, V any](n node.Node[K, V]) uint32 {
	if ghost_hasWeight() {
		return ghost_weight(n)
	}
	return 1
}

func alive[K comparable, V any](n node.Node[K, V]) bool {
	return !ghost_hasState() || ghost_state(n) == 0
}

// reloadCase: the write installs the result of a reload of an existing entry.
func reloadCase[K comparable, V any](old node.Node[K, V], cl *call[K, V]) bool {
	return cl != nil && cl.isRefresh && old != nil
}

// refreshDur is the duration returned by the refresh hook that the property prescribes for this write.
func refreshDur[K comparable, V any](old node.Node[K, V], cl *call[K, V], now int64) time.Duration {
	if reloadCase(old, cl) {
		if cl.err != nil {
			return ghost_ret_RefreshAfterReloadFailure()
		}
		return ghost_ret_RefreshAfterReload()
	}
	if live(old, now) {
		return ghost_ret_RefreshAfterUpdate()
	}
	return ghost_ret_RefreshAfterCreate()
}

func pick(c bool, a, b time.Duration) time.Duration {
	if c {
		return a
	}
	return b
}

// ---- frequency sketch (C18)

func nib(w, j uint64) uint64                 { return (w >> (j << 2)) & 0xf }
func ctrSlot(block, ch, i uint64) uint64     { return block + ((ch >> (i << 3)) & 1) + (i << 1) }
func ctrIdx(ch, i uint64) uint64             { return ((ch >> (i << 3)) >> 1) & 15 }
func isPow2(x uint64) bool                   { return x != 0 && x&(x-1) == 0 }
func minU64(a, b uint64) uint64 {
	if a < b {
		return a
	}
	return b
}

// wfSketch: the table length is a power of two >= 8 and blockMask selects a whole 8-word block.
func wfSketch[K comparable](s *sketch[K]) bool {
	n := uint64(len(s.table))
	return isPow2(n) && n >= 8 && s.blockMask == (n>>3)-1
}

// est is the popularity estimate of block hash bh: the minimum of its four 4-bit counters.
func est[K comparable](s *sketch[K], bh uint64) uint64 {
	ch := rehash(bh)
	block := (bh & s.blockMask) << 3
	f := uint64(15)
	for i := uint64(0); i < 4; i++ {
		f = minU64(f, nib(s.table[ctrSlot(block, ch, i)], ctrIdx(ch, i)))
	}
	return f
}

// estOf is what frequency must return for key k.
func estOf[K comparable](s *sketch[K], k K) uint64 {
	if s.isNotInitialized() {
		return 0
	}
	return est(s, s.hash(k))
}

//@ fieldinv ghost_expiresAt: v >= 0
//@ fieldinv ghost_refreshableAt: v >= 0
//@ fieldinv ghost_queueType: v <= 2


// ---------------------------------------------------------------------------------------------
// Clock
// ---------------------------------------------------------------------------------------------

//@ iface Clock.NowNano : C12 C03 C01
//@   assumed A-clock: readings are non-negative unix nanoseconds, and the clock only moves between operations (equal readings within one operation, as in the quantifier of C03/C13)
//@   modifies ghost_now(), ghost_clockRead()
//@   ensures [clock-nonneg] result >= 0 && result == ghost_now() && ghost_clockRead()
//@   ensures [clock-constant-within-operation] pre(ghost_clockRead()) ==> ghost_now() == pre(ghost_now())

// ---------------------------------------------------------------------------------------------
// Maintenance entry points (footprints; the bodies are verified in the C04/C05/C06 blocks below)
// ---------------------------------------------------------------------------------------------

//@ macro RHOOKS = ghost_calls_RefreshAfterCreate(), ghost_ret_RefreshAfterCreate(), ghost_calls_RefreshAfterUpdate(), ghost_ret_RefreshAfterUpdate(), ghost_calls_RefreshAfterReload(), ghost_ret_RefreshAfterReload(), ghost_calls_RefreshAfterReloadFailure(), ghost_ret_RefreshAfterReloadFailure()
//@ macro EVLOG = ghost_evictions(), ghost_evictionWeight()
//@ macro LINKFX = node::prev, node::next, node::prevExp, node::nextExp, Linked::head, Linked::tail, Linked::len
//@ macro ATOMICEV = ghost_calls_onAtomicDeletion()
//@ macro EVDELTA = uint64(ghost_calls_notifyDeletion()) - ghost_evictions()
//@ macro ONDEL = ghost_calls_onDeletion(), ghost_calls_notifyDeletion()
//@ macro WHOOKS = ghost_calls_ExpireAfterCreate(), ghost_ret_ExpireAfterCreate(), ghost_calls_ExpireAfterUpdate(), ghost_ret_ExpireAfterUpdate(), ghost_calls_weigher(), ghost_ret_weigher(), $RHOOKS
// footprint of a maintenance run: the policies, the wheel, the table (evictions), and the removal notifications of the entries it evicts
//@ macro MAINT0 = ghost_calls_evictFromMain(), node::state, node::queueType, node::prev, node::next, node::prevExp, node::nextExp, ghost_tbl(*), ghost_calls(*), ghost_inWheel(*), ghost_inDeque(*), policy::weightedSize, policy::windowMaximum, policy::windowWeightedSize, policy::mainProtectedMaximum, policy::mainProtectedWeightedSize, policy::stepSize, policy::adjustment, policy::hitsInSample, policy::missesInSample, policy::previousSampleHitRate, Variable::*, Linked::*, sketch::*, ghost_calls_increment(), []uint64::*, cache::drainStatus, cache::evictionMutex, ghost_calls_evictNode(), ghost_calls_rand(), ghost_ret_rand(), $EVLOG, $ONDEL, $ATOMICEV
// ... plus the call log of the maintenance steps and the clock reading of the sweep
//@ macro MAINT = $MAINT0, ghost_calls_scheduleDrainBuffers(), ghost_calls_maintenance(), ghost_calls_runTask(), ghost_calls_expireNodes(), ghost_calls_evictNodes(), ghost_calls_DeleteExpired(), ghost_calls_deleteExpiredFromBucket(), ghost_calls_expireNode(), ghost_now(), ghost_clockRead(), task::*

//@ macro CACHEFX0 = $MAINT, $EVLOG, $ONDEL, $ATOMICEV, $WHOOKS, ghost_calls(*), node::expiresAt, node::refreshableAt, ghost_calls_afterWrite(), ghost_calls_afterDelete(), ghost_queued(), ghost_calls_performCleanUp(), ghost_calls_afterWriteTask(), ghost_calls_runTask(), ghost_calls_getTask(), ghost_now(), ghost_clockRead(), ghost_calls_ExpireAfterRead(), ghost_ret_ExpireAfterRead(), task::*, ghost_buffered(*)

//@ macro CACHEFX = $CACHEFX0, ghost_wgDone(*), ghost_released(*), call::wg

//@ macro LOADFX = $CACHEFX, call::value, call::err, call::isNotFound, ghost_calls_load(), ghost_calls_afterFinish(), ghost_calls_doCall(), ghost_calls_startCall(), ghost_loadSuccess(), ghost_loadFailure(), ghost_calls_fn(), ghost_ret_fn(), ghost_calls_Error(), ghost_calls_wait(), ghost_waited(*), ghost_calls_newPanicError(), ghost_calls_BulkLoad(), ghost_calls_BulkReload(), ghost_calls_Load(), ghost_calls_Reload()

//@ immutable Cache.cache, cache.nodeManager, cache.hashmap, cache.evictionPolicy, cache.expirationPolicy, cache.stats, cache.clock, cache.singleflight, cache.withTime, cache.withExpiration, cache.withRefresh, cache.withEviction, cache.isWeighted, cache.withMaintenance, cache.withStats, cache.onDeletion, cache.onAtomicDeletion, cache.expiryCalculator, cache.refreshCalculator, cache.weigher, cache.executor, cache.readBuffer, cache.writeBuffer, cache.hasDefaultExecutor, policy.isWeighted, policy.sketch, policy.window, policy.probation, policy.protected, group.calls, G:hasExp, G:hasRefresh, G:hasWeight, G:hasSize, G:hasState, G:hasExpLinks, G:key, G:value, G:weight, call.key, call.isRefresh, call.isFake

//@ func (*cache).scheduleDrainBuffers : C01 C03 C12 C20
//@   counted
//@   var tstar *task[K, V]
//@   mode seq,itf
//@   note how a run is triggered under concurrency (the drain-status CAS protocol, C14) is not applicable; verified here: what the function does on one goroutine, with the executor running the task at once ([seq]) or not at all ([itf])
//@   requires cfg(c)
//@   modifies $MAINT
//@   ensures [wiring-kept] pre(wired(c)) ==> wired(c)
//@   ensures [clock-stable] pre(ghost_clockRead()) ==> ghost_clockRead() && ghost_now() == pre(ghost_now())
//@   ensures [events-outside-the-buffer-untouched] tstar != nil && !pre(ghost_buffered(tstar)) ==> tstar.n == pre(tstar.n) && tstar.old == pre(tstar.old) && tstar.writeReason == pre(tstar.writeReason) && tstar.deletionCause == pre(tstar.deletionCause)
//@   ensures @seq [C13:the-eviction-lock-is-handed-back] !pre(mutexHeld(&c.evictionMutex)) ==> !mutexHeld(&c.evictionMutex)
//@   ensures [C13:no-run-while-one-is-in-progress] pre(c.drainStatus.Load()) >= processingToIdle ==> ghost_calls_maintenance() == pre(ghost_calls_maintenance())

//@ macro ACCESSFX = node::queueType, node::prev, node::next, node::prevExp, node::nextExp, ghost_inWheel(*), ghost_inDeque(*), policy::windowWeightedSize, policy::mainProtectedWeightedSize, policy::hitsInSample, Linked::*, sketch::*, ghost_calls_increment(), []uint64::*

//@ func (*policy).access : C05 C18
//@   requires ghost_hasSize() && wfPolicy(p) && n != nil
//@   modifies node::queueType, $LINKFX, ghost_inDeque(*), p.mainProtectedWeightedSize, p.hitsInSample, sketch::*, ghost_calls_increment(), []uint64::*
//@   ensures [policy-wf-kept] wfPolicy(p)
//@   ensures [C05:an-access-moves-no-entry-into-or-out-of-the-window] (ghost_queueType(n) == node.InWindowQueue) == pre(ghost_queueType(n) == node.InWindowQueue)
//@   ensures [C18:every-access-is-recorded-once] ghost_calls_increment() == pre(ghost_calls_increment()) + 1
//@   ensures [C05:a-read-removes-nothing] p.weightedSize == pre(p.weightedSize)
//@   ensures [C05:accessed-node-stays-linked-in-its-queue] pre(ghost_inDeque(queueOf(p, n), n)) ==> ghost_inDeque(queueOf(p, n), n)
//@   ensures [C05:a-stale-access-tracks-nothing] pre(!ghost_inDeque(p.window, n) && !ghost_inDeque(p.probation, n) && !ghost_inDeque(p.protected, n)) ==> !ghost_inDeque(p.window, n) && !ghost_inDeque(p.probation, n) && !ghost_inDeque(p.protected, n) && p.mainProtectedWeightedSize == pre(p.mainProtectedWeightedSize) && p.windowWeightedSize == pre(p.windowWeightedSize) && ghost_queueType(n) == pre(ghost_queueType(n))

//@ func (*cache).onAccess : C05 C13
//@   requires cfg(c) && n != nil
//@   modifies $ACCESSFX
//@   ensures [wiring-kept] wired(c)
//@   ensures [C05:a-read-removes-nothing] !c.withEviction || c.evictionPolicy.weightedSize == pre(c.evictionPolicy.weightedSize)

//@ func (*cache).drainReadBuffer : C05
//@   requires cfg(c)
//@   modifies $ACCESSFX
//@   site DrainTo: callback-invariant cfg(c)
//@   ensures [wiring-kept] wired(c)

//@ func (*cache).drainWriteBuffer : C05 C06
//@   var tstar *task[K, V]
//@   requires cfg(c)
//@   modifies $MAINT0, ghost_calls_runTask(), task::*
//@   site TryPop: assume [A-buffer] t == nil || (taskWf(t) && ghost_buffered(t))
//@   note A-buffer (C16 is not applicable): an event handed out by the write buffer is an event that was pushed; events are well-formed when pushed (afterWriteTask requires taskWf of the event it pushes) and the buffer owns them in between
//@   loop 1: invariant [wiring] wired(c)
//@   loop 1: invariant [C05:events-outside-the-buffer-untouched] !pre(ghost_buffered(tstar)) ==> tstar.n == pre(tstar.n) && tstar.old == pre(tstar.old) && tstar.writeReason == pre(tstar.writeReason) && tstar.deletionCause == pre(tstar.deletionCause)
//@   loop 1: invariant [clock-stable] pre(ghost_clockRead()) ==> ghost_clockRead() && ghost_now() == pre(ghost_now())
//@   ensures [wiring-kept] wired(c)
//@   ensures [clock-stable] pre(ghost_clockRead()) ==> ghost_clockRead() && ghost_now() == pre(ghost_now())
//@   ensures [C05:events-outside-the-buffer-untouched] !pre(ghost_buffered(tstar)) ==> tstar.n == pre(tstar.n) && tstar.old == pre(tstar.old) && tstar.writeReason == pre(tstar.writeReason) && tstar.deletionCause == pre(tstar.deletionCause)

//@ func (*cache).climb : C04 C05
//@   requires cfg(c)
//@   modifies node::queueType, node::prev, node::next, node::prevExp, node::nextExp, ghost_inDeque(*), policy::windowMaximum, policy::windowWeightedSize, policy::mainProtectedMaximum, policy::mainProtectedWeightedSize, policy::stepSize, policy::adjustment, policy::hitsInSample, policy::missesInSample, policy::previousSampleHitRate, Linked::*
//@   ensures [wiring-kept] wired(c)
//@   ensures [C04:climbing-removes-nothing] !c.withEviction || c.evictionPolicy.weightedSize == pre(c.evictionPolicy.weightedSize)

//@ func (*cache).expireNodes : C13 C07 C06
//@   counted
//@   requires cfg(c)
//@   modifies $MAINT0, ghost_now(), ghost_clockRead(), ghost_calls_DeleteExpired(), ghost_calls_deleteExpiredFromBucket(), ghost_calls_expireNode()
//@   ensures [wiring-kept] wired(c)
//@   ensures [C06:expirations-notified-one-to-one] $EVDELTA == pre($EVDELTA)
//@   ensures [C13:sweep-at-the-clock-reading] c.withExpiration ==> ghost_calls_DeleteExpired() == pre(ghost_calls_DeleteExpired()) + 1 && ghost_last_DeleteExpired_nowNanos() == ghost_now()
//@   ensures [C07:no-expiration-policy-no-sweep] !c.withExpiration ==> ghost_calls_DeleteExpired() == pre(ghost_calls_DeleteExpired()) && ghost_calls_notifyDeletion() == pre(ghost_calls_notifyDeletion())
//@   ensures [clock-stable] pre(ghost_clockRead()) ==> ghost_clockRead() && ghost_now() == pre(ghost_now())

//@ func (*cache).evictNodes : C04 C07 C06
//@   counted
//@   requires cfg(c)
//@   modifies $MAINT0
//@   ensures [wiring-kept] wired(c)
//@   ensures [C06:evictions-notified-one-to-one] $EVDELTA == pre($EVDELTA)
//@   ensures [C07:unbounded-cache-never-evicts-for-size] !c.withEviction ==> ghost_calls_notifyDeletion() == pre(ghost_calls_notifyDeletion()) && ghost_evictions() == pre(ghost_evictions()) && ghost_calls_onAtomicDeletion() == pre(ghost_calls_onAtomicDeletion())
//@   ensures [clock-stable] pre(ghost_clockRead()) ==> ghost_clockRead() && ghost_now() == pre(ghost_now())

//@ func (*cache).maintenance : C01 C03 C19 C05 C06 C13 C04
//@   var tstar *task[K, V]
//@   counted
//@   requires cfg(c) && (t != nil ==> c.withMaintenance && taskWf(t) && !ghost_buffered(t))
//@   modifies $MAINT0, t.n, t.old, t.writeReason, t.deletionCause, ghost_calls_runTask(), ghost_calls_expireNodes(), ghost_calls_evictNodes(), ghost_calls_DeleteExpired(), ghost_calls_deleteExpiredFromBucket(), ghost_calls_expireNode(), ghost_now(), ghost_clockRead(), task::*
//@   ensures [wiring-kept] wired(c)
//@   ensures [C05:handed-event-applied-after-the-buffered-ones] ghost_last_runTask_t[K, V]() == t
//@   site evictNodes: requires [C13:expired-entries-swept-before-size-eviction] ghost_calls_expireNodes() == pre(ghost_calls_expireNodes()) + 1
//@   site expireNodes: requires [C05:events-applied-before-sweeping] ghost_last_runTask_t[K, V]() == t
//@   ensures [C04:size-eviction-runs-every-maintenance] ghost_calls_evictNodes() == pre(ghost_calls_evictNodes()) + 1
//@   ensures [C13:sweep-runs-every-maintenance] ghost_calls_expireNodes() == pre(ghost_calls_expireNodes()) + 1
//@   ensures [clock-stable] pre(ghost_clockRead()) ==> ghost_clockRead() && ghost_now() == pre(ghost_now())
//@   ensures [C05:other-events-outside-the-buffer-untouched] tstar != t && !pre(ghost_buffered(tstar)) ==> tstar.n == pre(tstar.n) && tstar.old == pre(tstar.old) && tstar.writeReason == pre(tstar.writeReason) && tstar.deletionCause == pre(tstar.deletionCause)

//@ func (*cache).afterRead : C01 C03 C12 C20
//@   requires cfg(c) && nowNano >= 0 && got != nil
//@   requires [C03:deadline-only-live] calcExpiresAt && c.withExpiration ==> live(got, nowNano)
//@   modifies $MAINT, $EVLOG, got.expiresAt, ghost_calls_ExpireAfterRead(), ghost_ret_ExpireAfterRead(), ghost_hits()
//@   ensures [C20:hit-recorded-iff-asked] ghost_hits() == pre(ghost_hits()) + pickU64(recordHit, 1, 0)
//@   ensures [C12:read-hook-once] calcExpiresAt && c.withExpiration ==> ghost_calls_ExpireAfterRead() == pre(ghost_calls_ExpireAfterRead()) + 1
//@   ensures [C12:read-deadline] calcExpiresAt && c.withExpiration && ghost_ret_ExpireAfterRead() > 0 ==> ghost_expiresAt(got) == satadd(nowNano, int64(ghost_ret_ExpireAfterRead()))
//@   ensures [C12:read-keep] !calcExpiresAt || !c.withExpiration || ghost_ret_ExpireAfterRead() <= 0 ==> ghost_expiresAt(got) == pre(ghost_expiresAt(got))
//@   ensures [C12:no-hook-unless-asked] !calcExpiresAt || !c.withExpiration ==> ghost_calls_ExpireAfterRead() == pre(ghost_calls_ExpireAfterRead()) && ghost_ret_ExpireAfterRead() == pre(ghost_ret_ExpireAfterRead())
//@   ensures [clock-stable] pre(ghost_clockRead()) ==> ghost_clockRead() && ghost_now() == pre(ghost_now())
//@   ensures [wiring-kept] pre(wired(c)) ==> wired(c)

//@ func (*cache).getNodeQuietly : C01 C03 C11 C12 C20
//@   requires cfg(c)
//@   ensures [C03:quiet-live-only] result != nil ==> live(result, nowNano) && alive(result) && result == ghost_tbl(c.hashmap, key) && same(ghost_key(result), key)
//@   ensures [C01:quiet-finds] live(ghost_tbl(c.hashmap, key), nowNano) && alive(ghost_tbl(c.hashmap, key)) ==> result == ghost_tbl(c.hashmap, key)

// ---------------------------------------------------------------------------------------------
// C12 — deadlines
// ---------------------------------------------------------------------------------------------

//@ func (*cache).nodeToEntry : C12 C01 C03
//@   requires cfg(c) && n != nil
//@   ensures [entry-fields] same(result.Key, ghost_key(n)) && same(result.Value, ghost_value(n)) && result.Weight == weightOf(n)
//@   ensures [C12:entry-deadlines] result.ExpiresAtNano == pickI64(c.withExpiration, ghost_expiresAt(n), math.MaxInt64) && result.RefreshableAtNano == pickI64(c.withRefresh, ghost_refreshableAt(n), math.MaxInt64)
//@   ensures [C12:entry-snapshot] result.SnapshotAtNano == pickI64(c.withTime, nanos, 0)

//@ func (*cache).setExpiresAfterRead : C12 C03 C07
//@   requires cfg(c) && c.withExpiration && nowNano >= 0 && n != nil
//@   requires [C03:deadline-only-live] live(n, nowNano)
//@   modifies n.expiresAt
//@   ensures [C12:read-exact] expiresAfter > 0 ==> ghost_expiresAt(n) == satadd(nowNano, int64(expiresAfter))
//@   ensures [C12:read-keep] expiresAfter <= 0 ==> ghost_expiresAt(n) == pre(ghost_expiresAt(n))

//@ func (*cache).calcExpiresAtAfterRead : C12 C03 C07
//@   requires cfg(c) && nowNano >= 0 && n != nil
//@   requires [C03:deadline-only-live] c.withExpiration ==> live(n, nowNano)
//@   modifies n.expiresAt, ghost_calls_ExpireAfterRead(), ghost_ret_ExpireAfterRead()
//@   ensures [C12:read-hook-once] c.withExpiration ==> ghost_calls_ExpireAfterRead() == pre(ghost_calls_ExpireAfterRead()) + 1
//@   ensures [C12:read-deadline] c.withExpiration && ghost_ret_ExpireAfterRead() > 0 ==> ghost_expiresAt(n) == satadd(nowNano, int64(ghost_ret_ExpireAfterRead()))
//@   ensures [C12:read-keep] !c.withExpiration || ghost_ret_ExpireAfterRead() <= 0 ==> ghost_expiresAt(n) == pre(ghost_expiresAt(n))
//@   ensures [C12:no-hook-unconfigured] !c.withExpiration ==> ghost_calls_ExpireAfterRead() == pre(ghost_calls_ExpireAfterRead()) && ghost_ret_ExpireAfterRead() == pre(ghost_ret_ExpireAfterRead())

//@ func (*cache).calcExpiresAtAfterWrite : C12 C07
//@   requires cfg(c) && nowNano >= 0 && n != nil && n != old
//@   modifies n.expiresAt, ghost_calls_ExpireAfterCreate(), ghost_ret_ExpireAfterCreate(), ghost_calls_ExpireAfterUpdate(), ghost_ret_ExpireAfterUpdate()
//@   ensures [C12:create-vs-update] c.withExpiration && !live(old, nowNano) ==> ghost_calls_ExpireAfterCreate() == pre(ghost_calls_ExpireAfterCreate()) + 1 && ghost_calls_ExpireAfterUpdate() == pre(ghost_calls_ExpireAfterUpdate())
//@   ensures [C12:update-vs-create] c.withExpiration && live(old, nowNano) ==> ghost_calls_ExpireAfterUpdate() == pre(ghost_calls_ExpireAfterUpdate()) + 1 && ghost_calls_ExpireAfterCreate() == pre(ghost_calls_ExpireAfterCreate())
//@   ensures [C12:write-exact] c.withExpiration && pick(live(old, nowNano), ghost_ret_ExpireAfterUpdate(), ghost_ret_ExpireAfterCreate()) > 0 ==> ghost_expiresAt(n) == satadd(nowNano, int64(pick(live(old, nowNano), ghost_ret_ExpireAfterUpdate(), ghost_ret_ExpireAfterCreate())))
//@   ensures [C12:no-hook-unconfigured] !c.withExpiration ==> ghost_calls_ExpireAfterCreate() == pre(ghost_calls_ExpireAfterCreate()) && ghost_calls_ExpireAfterUpdate() == pre(ghost_calls_ExpireAfterUpdate())
//@   ensures [C12:write-keep] !c.withExpiration || pick(live(old, nowNano), ghost_ret_ExpireAfterUpdate(), ghost_ret_ExpireAfterCreate()) <= 0 ==> ghost_expiresAt(n) == pre(ghost_expiresAt(n))

//@ func (*cache).calcRefreshableAt : C12 C11
//@   requires cfg(c) && nowNano >= 0 && n != nil
//@   modifies n.refreshableAt, $RHOOKS
//@   ensures [C12:refresh-unconfigured] !c.withRefresh ==> ghost_refreshableAt(n) == pre(ghost_refreshableAt(n)) && ghost_calls_RefreshAfterCreate() == pre(ghost_calls_RefreshAfterCreate()) && ghost_calls_RefreshAfterUpdate() == pre(ghost_calls_RefreshAfterUpdate()) && ghost_calls_RefreshAfterReload() == pre(ghost_calls_RefreshAfterReload()) && ghost_calls_RefreshAfterReloadFailure() == pre(ghost_calls_RefreshAfterReloadFailure())
//@   ensures [C11:notfound-keeps-deadline] c.withRefresh && reloadCase(old, cl) && cl.isNotFound ==> ghost_refreshableAt(n) == pre(ghost_refreshableAt(n))
//@   ensures [C12:refresh-create-hook] c.withRefresh && !reloadCase(old, cl) && !live(old, nowNano) ==> ghost_calls_RefreshAfterCreate() == pre(ghost_calls_RefreshAfterCreate()) + 1 && ghost_calls_RefreshAfterUpdate() == pre(ghost_calls_RefreshAfterUpdate())
//@   ensures [C12:refresh-update-hook] c.withRefresh && !reloadCase(old, cl) && live(old, nowNano) ==> ghost_calls_RefreshAfterUpdate() == pre(ghost_calls_RefreshAfterUpdate()) + 1 && ghost_calls_RefreshAfterCreate() == pre(ghost_calls_RefreshAfterCreate())
//@   ensures [C11:reload-hooks] c.withRefresh && reloadCase(old, cl) && !cl.isNotFound ==> (cl.err != nil ==> ghost_calls_RefreshAfterReloadFailure() == pre(ghost_calls_RefreshAfterReloadFailure()) + 1) && (cl.err == nil ==> ghost_calls_RefreshAfterReload() == pre(ghost_calls_RefreshAfterReload()) + 1)
//@   ensures [C12:refresh-exact] c.withRefresh && !(reloadCase(old, cl) && cl.isNotFound) && refreshDur(old, cl, nowNano) > 0 ==> ghost_refreshableAt(n) == satadd(nowNano, int64(refreshDur(old, cl, nowNano)))
//@   ensures [C12:refresh-keep] c.withRefresh && !(reloadCase(old, cl) && cl.isNotFound) && refreshDur(old, cl, nowNano) <= 0 ==> ghost_refreshableAt(n) == pre(ghost_refreshableAt(n))

//@ func (*cache).newNode : C12 C01 C03
//@   requires cfg(c)
//@   requires [old-distinct] true
//@   modifies ghost_calls_weigher(), ghost_ret_weigher()
//@   ensures [new-node] result != nil && result != old && same(ghost_key(result), key) && same(ghost_value(result), value) && alive(result)
//@   ensures [C12:inherit-deadline] c.withExpiration ==> ghost_expiresAt(result) == pickI64(old != nil, ghost_expiresAt(old), math.MaxInt64)
//@   ensures [C12:inherit-refresh] c.withRefresh ==> ghost_refreshableAt(result) == pickI64(old != nil, ghost_refreshableAt(old), math.MaxInt64)
//@   ensures [new-weight] c.isWeighted ==> ghost_weight(result) == ghost_ret_weigher()

// expiry calculators: creation-only, write-reset, access-reset
//@ func (*varExpiryCreating).ExpireAfterCreate : C12
//@   modifies ghost_calls_f(), ghost_ret_f()
//@   ensures [C12:creating-create] result == ghost_ret_f() && ghost_calls_f() == pre(ghost_calls_f()) + 1
//@ func (*varExpiryCreating).ExpireAfterUpdate : C12
//@   ensures [C12:creating-update-keeps] result == time.Duration(entry.ExpiresAtNano-entry.SnapshotAtNano)
//@ func (*varExpiryCreating).ExpireAfterRead : C12
//@   ensures [C12:creating-read-keeps] result == time.Duration(entry.ExpiresAtNano-entry.SnapshotAtNano)
//@ func (*varExpiryWriting).ExpireAfterCreate : C12
//@   modifies ghost_calls_f(), ghost_ret_f()
//@   ensures [C12:writing-create] result == ghost_ret_f() && ghost_calls_f() == pre(ghost_calls_f()) + 1
//@ func (*varExpiryWriting).ExpireAfterUpdate : C12
//@   modifies ghost_calls_f(), ghost_ret_f()
//@   ensures [C12:writing-update] result == ghost_ret_f() && ghost_calls_f() == pre(ghost_calls_f()) + 1
//@ func (*varExpiryWriting).ExpireAfterRead : C12
//@   ensures [C12:writing-read-keeps] result == time.Duration(entry.ExpiresAtNano-entry.SnapshotAtNano)
//@ func (*varExpiryAccessing).ExpireAfterCreate : C12
//@   modifies ghost_calls_f(), ghost_ret_f()
//@   ensures [C12:accessing-create] result == ghost_ret_f() && ghost_calls_f() == pre(ghost_calls_f()) + 1
//@ func (*varExpiryAccessing).ExpireAfterUpdate : C12
//@   modifies ghost_calls_f(), ghost_ret_f()
//@   ensures [C12:accessing-update] result == ghost_ret_f() && ghost_calls_f() == pre(ghost_calls_f()) + 1
//@ func (*varExpiryAccessing).ExpireAfterRead : C12
//@   modifies ghost_calls_f(), ghost_ret_f()
//@   ensures [C12:accessing-read] result == ghost_ret_f() && ghost_calls_f() == pre(ghost_calls_f()) + 1

// refresh calculators
//@ func (*varRefreshCreating).RefreshAfterCreate : C12
//@   modifies ghost_calls_f(), ghost_ret_f()
//@   ensures [C12:rcreating-create] result == ghost_ret_f() && ghost_calls_f() == pre(ghost_calls_f()) + 1
//@ func (*varRefreshCreating).RefreshAfterUpdate : C12
//@   ensures [C12:rcreating-update-keeps] result == time.Duration(entry.RefreshableAtNano-entry.SnapshotAtNano)
//@ func (*varRefreshCreating).RefreshAfterReload : C12
//@   ensures [C12:rcreating-reload-keeps] result == time.Duration(entry.RefreshableAtNano-entry.SnapshotAtNano)
//@ func (*varRefreshCreating).RefreshAfterReloadFailure : C12
//@   ensures [C12:rcreating-failure-keeps] result == time.Duration(entry.RefreshableAtNano-entry.SnapshotAtNano)
//@ func (*varRefreshWriting).RefreshAfterCreate : C12
//@   modifies ghost_calls_f(), ghost_ret_f()
//@   ensures [C12:rwriting-create] result == ghost_ret_f() && ghost_calls_f() == pre(ghost_calls_f()) + 1
//@ func (*varRefreshWriting).RefreshAfterUpdate : C12
//@   modifies ghost_calls_f(), ghost_ret_f()
//@   ensures [C12:rwriting-update] result == ghost_ret_f() && ghost_calls_f() == pre(ghost_calls_f()) + 1
//@ func (*varRefreshWriting).RefreshAfterReload : C12
//@   modifies ghost_calls_f(), ghost_ret_f()
//@   ensures [C12:rwriting-reload] result == ghost_ret_f() && ghost_calls_f() == pre(ghost_calls_f()) + 1
//@ func (*varRefreshWriting).RefreshAfterReloadFailure : C12
//@   ensures [C12:rwriting-failure-keeps] result == time.Duration(entry.RefreshableAtNano-entry.SnapshotAtNano)

// entry snapshots
//@ func Entry.ExpiresAfter : C12
//@   ensures [C12:entry-remaining] result == time.Duration(e.ExpiresAtNano-e.SnapshotAtNano)
//@ func Entry.RefreshableAfter : C12
//@   ensures [C12:entry-refresh-remaining] result == time.Duration(e.RefreshableAtNano-e.SnapshotAtNano)
//@ func Entry.HasExpired : C12 C03
//@   ensures [C12:entry-visible-iff-before] result == (e.ExpiresAtNano <= e.SnapshotAtNano)

// per-entry overrides
//@ func (*cache).SetExpiresAfter : C12 C03 C01 C20 C07
//@   counted
//@   requires cfg(c)
//@   modifies $MAINT, $EVLOG, ghost_now(), ghost_clockRead(), ghost_tbl(c.hashmap, key).expiresAt
//@   ensures [C12:override-exact] c.withExpiration && expiresAfter > 0 && pre(ghost_tbl(c.hashmap, key)) != nil && pre(alive(ghost_tbl(c.hashmap, key))) && pre(ghost_expiresAt(ghost_tbl(c.hashmap, key))) > ghost_now() ==> ghost_expiresAt(pre(ghost_tbl(c.hashmap, key))) == satadd(ghost_now(), int64(expiresAfter))
//@   ensures [C03:no-resurrect] pre(ghost_tbl(c.hashmap, key)) != nil && c.withExpiration && pre(ghost_expiresAt(ghost_tbl(c.hashmap, key))) <= ghost_now() ==> ghost_expiresAt(pre(ghost_tbl(c.hashmap, key))) == pre(ghost_expiresAt(ghost_tbl(c.hashmap, key)))
//@   ensures [C12:override-ignored] !c.withExpiration || expiresAfter <= 0 ==> pre(ghost_tbl(c.hashmap, key)) == nil || ghost_expiresAt(pre(ghost_tbl(c.hashmap, key))) == pre(ghost_expiresAt(ghost_tbl(c.hashmap, key)))
//@   ensures [C20:quiet] ghost_hits() == pre(ghost_hits()) && ghost_misses() == pre(ghost_misses())
//@   ensures [clock-stable] pre(ghost_clockRead()) ==> ghost_clockRead() && ghost_now() == pre(ghost_now())
//@   ensures [wiring-kept] pre(wired(c)) ==> wired(c)

//@ func (*cache).SetRefreshableAfter : C12 C03 C01 C20 C11
//@   counted
//@   requires cfg(c)
//@   modifies ghost_now(), ghost_clockRead(), ghost_tbl(c.hashmap, key).refreshableAt
//@   ensures [C12:refresh-override-exact] c.withRefresh && refreshableAfter > 0 && pre(ghost_tbl(c.hashmap, key)) != nil && pre(alive(ghost_tbl(c.hashmap, key))) && pre(live(ghost_tbl(c.hashmap, key), 0)) && (!c.withExpiration || pre(ghost_expiresAt(ghost_tbl(c.hashmap, key))) > ghost_now()) ==> ghost_refreshableAt(pre(ghost_tbl(c.hashmap, key))) == satadd(ghost_now(), int64(refreshableAfter))
//@   ensures [C03:no-touch-expired] pre(ghost_tbl(c.hashmap, key)) != nil && c.withRefresh && c.withExpiration && pre(ghost_expiresAt(ghost_tbl(c.hashmap, key))) <= ghost_now() ==> ghost_refreshableAt(pre(ghost_tbl(c.hashmap, key))) == pre(ghost_refreshableAt(ghost_tbl(c.hashmap, key)))
//@   ensures [C20:quiet] ghost_hits() == pre(ghost_hits()) && ghost_misses() == pre(ghost_misses())

// ---------------------------------------------------------------------------------------------
// C18 — frequency sketch and admission
// ---------------------------------------------------------------------------------------------

//@ func (*sketch).frequency : C18
//@   requires s.isNotInitialized() || wfSketch(s)
//@   loop 1: unroll 4
//@   ensures [C18:zero-before-init] s.isNotInitialized() ==> result == 0
//@   ensures [C18:same-counters] result == estOf(s, k)
//@   ensures [C18:le-15] result <= 15

//@ func (*sketch).incrementAt : C18
//@   inline verified on its own and inlined at its four call sites (its postcondition quantifies over all other counters)
//@   var qstar uint64
//@   requires i < uint64(len(s.table)) && j < 16
//@   modifies s.table[i]
//@   ensures [C18:saturating] nib(s.table[i], j) == minU64(pre(nib(s.table[i], j))+1, 15)
//@   ensures [C18:other-counters-untouched] qstar < 16 && qstar != j ==> nib(s.table[i], qstar) == pre(nib(s.table[i], qstar))
//@   ensures [C18:added-iff-not-saturated] result == (pre(nib(s.table[i], j)) != 15)
//@   ensures [len-kept] len(s.table) == pre(len(s.table))

//@ func (*sketch).reset : C18
//@   var jstar uint64
//@   var qstar uint64
//@   modifies s.table[*], s.size
//@   loop 1: invariant i >= 0 && i <= len(s.table) && len(s.table) == pre(len(s.table))
//@   loop 1: invariant jstar < uint64(i) ==> s.table[jstar] == (pre(s.table[jstar])>>1)&resetMask
//@   loop 1: invariant jstar >= uint64(i) && jstar < uint64(len(s.table)) ==> s.table[jstar] == pre(s.table[jstar])
//@   ensures [C18:reset-halves] jstar < uint64(len(s.table)) && qstar < 16 ==> nib(s.table[jstar], qstar) == pre(nib(s.table[jstar], qstar))>>1
//@   ensures [len-kept] len(s.table) == pre(len(s.table)) && s.blockMask == pre(s.blockMask)

//@ func (*sketch).increment : C18
//@   counted
//@   var hstar uint64
//@   requires s.isNotInitialized() || wfSketch(s)
//@   modifies s.table[*], s.size
//@   ensures [C18:noop-before-init] s.isNotInitialized() ==> est(s, hstar) == pre(est(s, hstar))
//@   ensures [C18:no-undercount-self] !s.isNotInitialized() && pre(s.size)+1 != s.sampleSize ==> est(s, s.hash(k)) >= minU64(pre(est(s, s.hash(k)))+1, 15)
//@   ensures [C18:no-undercount-others] !s.isNotInitialized() && pre(s.size)+1 != s.sampleSize ==> est(s, hstar) >= pre(est(s, hstar))
//@   ensures [C18:wf-kept] wfSketch(s) == pre(wfSketch(s))

//@ func (*sketch).ensureCapacity : C18
//@   var hstar uint64
//@   requires maximumSize <= 1<<62
//@   requires s.isNotInitialized() || wfSketch(s)
//@   modifies s.table, s.sampleSize, s.blockMask, s.size, sketch::hasher.seed.s, s.isInitialized
//@   ensures [C18:capacity-wf] pre(uint64(len(s.table))) < maximumSize ==> wfSketch(s) && !s.isNotInitialized() && uint64(len(s.table)) >= maximumSize
//@   ensures [C18:new-period-zero] pre(uint64(len(s.table))) < maximumSize ==> est(s, hstar) == 0
//@   ensures [C18:no-op-when-large-enough] pre(uint64(len(s.table))) >= maximumSize ==> same(s.table, pre(s.table)) && s.blockMask == pre(s.blockMask) && s.isNotInitialized() == pre(s.isNotInitialized())

//@ func (*policy).admit : C18 C04 C07
//@   requires p.sketch != nil && (p.sketch.isNotInitialized() || wfSketch(p.sketch))
//@   modifies ghost_calls_rand(), ghost_ret_rand()
//@   ensures [C18:admit-greater] estOf(p.sketch, candidateKey) > estOf(p.sketch, victimKey) ==> result
//@   ensures [C18:admit-strict] result ==> estOf(p.sketch, candidateKey) > estOf(p.sketch, victimKey) || (estOf(p.sketch, candidateKey) >= 6 && ghost_ret_rand()&127 == 0)
//@   ensures [C18:admit-random-only-warm] result && estOf(p.sketch, candidateKey) <= estOf(p.sketch, victimKey) ==> estOf(p.sketch, candidateKey) >= 6

// ---------------------------------------------------------------------------------------------
// Table-level operations: C01 (conformance), C03 (expired ⇒ absent), C06 (atomic event exactly once,
// truthful cause), C09 (a write clears the in-flight load), C20 (lookup counters)
// ---------------------------------------------------------------------------------------------

//@ func (*group).delete : C09 C08 C01 C03 C06
//@   mode seq
//@   note called only inside the node table's critical section for the same key (atomicSet, atomicDelete, deleteNodeFromMap), where the bucket lock protects the call-table entry of that key
//@   modifies ghost_calls(g.calls, key)
//@   ensures [C09:write-clears-call] g.isInitialized.Load() ==> ghost_calls(g.calls, key) == nil
//@   ensures [no-table-before-init] !g.isInitialized.Load() ==> ghost_calls(g.calls, key) == pre(ghost_calls(g.calls, key))

//@ func (*cache).notifyAtomicDeletion : C06 C01 C03
//@   mode seq,itf
//@   modifies $ATOMICEV
//@   ensures [C06:atomic-event-delivered] c.onAtomicDeletion != nil ==> ghost_calls_onAtomicDeletion() == pre(ghost_calls_onAtomicDeletion()) + 1 && same(ghost_arg_onAtomicDeletion_0[K](), key) && same(ghost_arg_onAtomicDeletion_1[V](), value) && ghost_arg_onAtomicDeletion_2() == cause
//@   ensures [C06:no-handler-no-event] c.onAtomicDeletion == nil ==> ghost_calls_onAtomicDeletion() == pre(ghost_calls_onAtomicDeletion())

//@ func (*cache).notifyDeletion : C06
//@   counted
//@   modifies ghost_calls_onDeletion()
//@   ensures [C06:deletion-event-delivered] c.onDeletion != nil ==> ghost_calls_onDeletion() == pre(ghost_calls_onDeletion()) + 1 && same(ghost_arg_onDeletion_0[K](), key) && same(ghost_arg_onDeletion_1[V](), value) && ghost_arg_onDeletion_2() == cause
//@   ensures [C06:no-handler-no-event] c.onDeletion == nil ==> ghost_calls_onDeletion() == pre(ghost_calls_onDeletion())

//@ func (*cache).atomicSet : C01 C03 C06 C09 C12 C05
//@   mode seq,itf
//@   requires cfg(c) && nowNano >= 0 && c.singleflight != nil
//@   requires [old-is-entry-of-key] old == nil || same(ghost_key(old), key)
//@   modifies old.state, ghost_calls(c.singleflight.calls, key), $WHOOKS, $ATOMICEV, result.expiresAt, result.refreshableAt
//@   ensures [new-node] result != nil && result != old && same(ghost_key(result), key) && same(ghost_value(result), value) && alive(result)
//@   ensures [C09:write-clears-call] cl == nil && c.singleflight.isInitialized.Load() ==> ghost_calls(c.singleflight.calls, key) == nil
//@   ensures [C09:install-keeps-call-table] cl != nil || !c.singleflight.isInitialized.Load() ==> ghost_calls(c.singleflight.calls, key) == pre(ghost_calls(c.singleflight.calls, key))
//@   ensures [C09:install-does-not-access-call-table] cl != nil || !c.singleflight.isInitialized.Load() ==> ghost_clpCount(c.singleflight.calls) == pre(ghost_clpCount(c.singleflight.calls)) && ghost_clpCur(c.singleflight.calls) == pre(ghost_clpCur(c.singleflight.calls)) && ghost_clpNew(c.singleflight.calls) == pre(ghost_clpNew(c.singleflight.calls))
//@   ensures [C06:atomic-once] old != nil && c.onAtomicDeletion != nil ==> ghost_calls_onAtomicDeletion() == pre(ghost_calls_onAtomicDeletion()) + 1 && same(ghost_arg_onAtomicDeletion_0[K](), ghost_key(old)) && same(ghost_arg_onAtomicDeletion_1[V](), ghost_value(old))
//@   ensures [C06:cause-truthful] old != nil && c.onAtomicDeletion != nil ==> ghost_arg_onAtomicDeletion_2() == pickCause(live(old, nowNano), CauseReplacement, CauseExpiration)
//@   ensures [C06:create-reports-nothing] old == nil || c.onAtomicDeletion == nil ==> ghost_calls_onAtomicDeletion() == pre(ghost_calls_onAtomicDeletion())
//@   ensures [C05:old-retired] old != nil && c.withMaintenance && pre(alive(old)) ==> ghost_state(old) == 1
//@   ensures [C05:old-state-otherwise-kept] old != nil && !(c.withMaintenance && pre(alive(old))) ==> ghost_state(old) == pre(ghost_state(old))
//@   ensures [C12:write-deadline] c.withExpiration ==> ghost_expiresAt(result) == pickI64(pick(live(old, nowNano), ghost_ret_ExpireAfterUpdate(), ghost_ret_ExpireAfterCreate()) > 0, satadd(nowNano, int64(pick(live(old, nowNano), ghost_ret_ExpireAfterUpdate(), ghost_ret_ExpireAfterCreate()))), pickI64(old != nil, ghost_expiresAt(old), math.MaxInt64))
//@   ensures [C12:new-deadline-in-future-or-inherited] c.withExpiration && !live(old, nowNano) && ghost_ret_ExpireAfterCreate() > 0 ==> ghost_expiresAt(result) > nowNano || ghost_expiresAt(result) == math.MaxInt64

//@ func (*cache).atomicDelete : C01 C03 C06 C09 C05
//@   mode seq,itf
//@   requires cfg(c) && c.singleflight != nil
//@   modifies old.state, ghost_calls(c.singleflight.calls, key), $ATOMICEV
//@   ensures [returns-nil] result == nil
//@   ensures [C09:write-clears-call] cl == nil && c.singleflight.isInitialized.Load() ==> ghost_calls(c.singleflight.calls, key) == nil
//@   ensures [C09:install-keeps-call-table] cl != nil || !c.singleflight.isInitialized.Load() ==> ghost_calls(c.singleflight.calls, key) == pre(ghost_calls(c.singleflight.calls, key))
//@   ensures [C09:install-does-not-access-call-table] cl != nil || !c.singleflight.isInitialized.Load() ==> ghost_clpCount(c.singleflight.calls) == pre(ghost_clpCount(c.singleflight.calls)) && ghost_clpCur(c.singleflight.calls) == pre(ghost_clpCur(c.singleflight.calls)) && ghost_clpNew(c.singleflight.calls) == pre(ghost_clpNew(c.singleflight.calls))
//@   ensures [C06:atomic-once] old != nil && c.onAtomicDeletion != nil ==> ghost_calls_onAtomicDeletion() == pre(ghost_calls_onAtomicDeletion()) + 1 && same(ghost_arg_onAtomicDeletion_0[K](), ghost_key(old)) && same(ghost_arg_onAtomicDeletion_1[V](), ghost_value(old))
//@   ensures [C06:cause-truthful] old != nil && c.onAtomicDeletion != nil ==> ghost_arg_onAtomicDeletion_2() == pickCause(live(old, nowNano), CauseInvalidation, CauseExpiration)
//@   ensures [C06:absent-reports-nothing] old == nil || c.onAtomicDeletion == nil ==> ghost_calls_onAtomicDeletion() == pre(ghost_calls_onAtomicDeletion())
//@   ensures [C05:old-retired] old != nil && c.withMaintenance && pre(alive(old)) ==> ghost_state(old) == 1
//@   ensures [C05:old-state-otherwise-kept] old != nil && !(c.withMaintenance && pre(alive(old))) ==> ghost_state(old) == pre(ghost_state(old))

// policy notification entry points (bodies verified in the C05/C06 block)
//@ func (*cache).scheduleAfterWrite : C05 C06
//@   var tstar *task[K, V]
//@   mode seq,itf
//@   note the drain-status protocol under concurrency (C14) is not applicable; verified here: the sequential content
//@   requires cfg(c)
//@   modifies $MAINT
//@   loop 1: invariant [wiring] cfg(c)
//@   ensures [wiring-kept] pre(wired(c)) ==> wired(c)
//@   ensures [clock-stable] pre(ghost_clockRead()) ==> ghost_clockRead() && ghost_now() == pre(ghost_now())
//@   ensures [events-outside-the-buffer-untouched] tstar != nil && !pre(ghost_buffered(tstar)) ==> tstar.n == pre(tstar.n) && tstar.old == pre(tstar.old) && tstar.writeReason == pre(tstar.writeReason) && tstar.deletionCause == pre(tstar.deletionCause)
//@   ensures @seq [C13:the-eviction-lock-is-handed-back] !pre(mutexHeld(&c.evictionMutex)) ==> !mutexHeld(&c.evictionMutex)
//@   site scheduleDrainBuffers: requires [C13:a-drain-is-scheduled-only-once-per-write] ghost_calls_scheduleDrainBuffers() == pre(ghost_calls_scheduleDrainBuffers())
//@   ensures @seq [C13:a-write-outside-a-running-drain-schedules-one] pre(c.drainStatus.Load()) == idle || pre(c.drainStatus.Load()) == required ==> ghost_calls_scheduleDrainBuffers() != pre(ghost_calls_scheduleDrainBuffers())

//@ func (*cache).performCleanUp : C05 C06 C04 C13
//@   var tstar *task[K, V]
//@   counted
//@   requires cfg(c) && (t != nil ==> c.withMaintenance && taskWf(t) && !ghost_buffered(t))
//@   modifies $MAINT, t.n, t.old, t.writeReason, t.deletionCause, task::*
//@   ensures [wiring-kept] wired(c)
//@   site rescheduleCleanUpIfIncomplete: requires [C05:handed-event-reaches-maintenance] ghost_calls_maintenance() == pre(ghost_calls_maintenance()) + 1 && ghost_last_maintenance_t[K, V]() == t
//@   ensures [clock-stable] pre(ghost_clockRead()) ==> ghost_clockRead() && ghost_now() == pre(ghost_now())
//@   ensures [C05:other-events-outside-the-buffer-untouched] tstar != nil && tstar != t && !pre(ghost_buffered(tstar)) ==> tstar.n == pre(tstar.n) && tstar.old == pre(tstar.old) && tstar.writeReason == pre(tstar.writeReason) && tstar.deletionCause == pre(tstar.deletionCause)
//@   ensures [C13:the-eviction-lock-is-released] !mutexHeld(&c.evictionMutex)

//@ func (*cache).getTask : C05 C06
//@   counted
//@   modifies task::n, task::old, task::writeReason, task::deletionCause
//@   ensures [C05:task-carries-the-write] result != nil && result.n == n && result.old == old && result.writeReason == writeReason && result.deletionCause == cause

//@ func (*cache).afterWriteTask : C05 C06 C04 C13
//@   counted
//@   requires cfg(c) && c.withMaintenance && t != nil && taskWf(t) && !ghost_buffered(t)
//@   modifies $MAINT, $EVLOG, $ONDEL, ghost_queued(), ghost_calls_performCleanUp(), t.n, t.old, t.writeReason, t.deletionCause, ghost_buffered(*)
//@   loop 1: invariant [wiring] wired(c) && taskWf(t) && !ghost_buffered(t)
//@   loop 1: invariant [not-yet-accepted] ghost_queued() == pre(ghost_queued()) && ghost_calls_performCleanUp() == pre(ghost_calls_performCleanUp())
//@   ensures [C05:write-event-never-dropped] (ghost_queued() == pre(ghost_queued())+1 && ghost_calls_performCleanUp() == pre(ghost_calls_performCleanUp())) || (ghost_queued() == pre(ghost_queued()) && ghost_calls_performCleanUp() == pre(ghost_calls_performCleanUp())+1 && ghost_last_performCleanUp_t[K, V]() == t)
//@   ensures [clock-stable] pre(ghost_clockRead()) ==> ghost_clockRead() && ghost_now() == pre(ghost_now())
//@   ensures [wiring-kept] pre(wired(c)) ==> wired(c)

//@ func (*cache).afterWrite : C01 C03 C05 C06 C09
//@   counted
//@   requires cfg(c) && n != nil && n != old
//@   modifies $MAINT, $EVLOG, $ONDEL, ghost_queued(), ghost_calls_performCleanUp(), ghost_calls_afterWriteTask(), ghost_calls_getTask(), task::*, ghost_buffered(*)
//@   ensures [C06:replacement-reported-without-maintenance] !c.withMaintenance && old != nil && c.onDeletion != nil ==> ghost_calls_onDeletion() == pre(ghost_calls_onDeletion()) + 1 && same(ghost_arg_onDeletion_1[V](), ghost_value(old)) && ghost_arg_onDeletion_2() == CauseReplacement
//@   site afterWriteTask: requires [C05:event-carries-the-written-nodes] ghost_last_getTask_result[K, V]() != nil && ghost_last_getTask_result[K, V]().n == n && ghost_last_getTask_result[K, V]().old == old
//@   site afterWriteTask: requires [C06:event-carries-truthful-cause] (old == nil ==> ghost_last_getTask_result[K, V]().writeReason == addReason) && (old != nil ==> ghost_last_getTask_result[K, V]().writeReason == updateReason && ghost_last_getTask_result[K, V]().deletionCause == pickCause(live(old, nowNano), CauseReplacement, CauseExpiration))
//@   ensures [C05:one-write-event-per-write] c.withMaintenance ==> ghost_calls_afterWriteTask() == pre(ghost_calls_afterWriteTask()) + 1 && ghost_last_afterWriteTask_t[K, V]() == ghost_last_getTask_result[K, V]()
//@   ensures [clock-stable] pre(ghost_clockRead()) ==> ghost_clockRead() && ghost_now() == pre(ghost_now())
//@   ensures [wiring-kept] pre(wired(c)) ==> wired(c)
//@   site getTask: assume [A-buffer] !ghost_buffered(ghost_last_getTask_result[K, V]())
//@   note A-buffer: an event object taken from the pool is not in the write buffer (events are returned to the pool only after they were handed out by the buffer or applied directly)

//@ func (*cache).runTask : C05 C06 C04 C07
//@   counted
//@   requires cfg(c) && (t != nil ==> c.withMaintenance && taskWf(t))
//@   modifies $MAINT0, t.n, t.old, t.writeReason, t.deletionCause
//@   ensures [wiring-kept] wired(c)
//@   ensures [C05:no-event-nothing-told] t == nil ==> ghost_calls_notifyDeletion() == pre(ghost_calls_notifyDeletion()) && ghost_evictions() == pre(ghost_evictions())
//@   ensures [C06:write-event-notifies-exactly-once] t != nil ==> $EVDELTA == pre($EVDELTA) + pickU64(pre(t.writeReason) != addReason, 1, 0)
//@   ensures [C06:replaced-value-reported-with-its-cause] t != nil && pre(t.writeReason) == updateReason ==> same(ghost_last_notifyDeletion_key[K](), ghost_key(pre(t.old))) && same(ghost_last_notifyDeletion_value[V](), ghost_value(pre(t.old))) && ghost_last_notifyDeletion_cause() == pre(t.deletionCause)
//@   ensures [C06:removed-value-reported-with-its-cause] t != nil && pre(t.writeReason) == deleteReason ==> same(ghost_last_notifyDeletion_key[K](), ghost_key(pre(t.n))) && same(ghost_last_notifyDeletion_value[V](), ghost_value(pre(t.n))) && ghost_last_notifyDeletion_cause() == pre(t.deletionCause)
//@   ensures [C05:removed-node-untracked] t != nil && pre(t.writeReason) == deleteReason ==> (c.withExpiration ==> !ghost_inWheel(pre(t.n))) && (c.withEviction ==> ghost_state(pre(t.n)) == 2 && !ghost_inDeque(queueOf(c.evictionPolicy, pre(t.n)), pre(t.n)))
//@   ensures [C05:replaced-node-untracked] t != nil && pre(t.writeReason) == updateReason ==> (c.withEviction ==> ghost_state(pre(t.old)) == 2)
//@   ensures [clock-stable] pre(ghost_clockRead()) ==> ghost_clockRead() && ghost_now() == pre(ghost_now())
//@   ensures [C13:written-node-is-scheduled] t != nil && pre(t.writeReason) != deleteReason && c.withExpiration && !c.withEviction && pre(alive(t.n)) ==> ghost_inWheel(pre(t.n))
//@   site add: requires [C13:written-node-is-scheduled-before-the-size-policy-may-evict-it] !c.withExpiration || !alive(n) || ghost_inWheel(n)
//@   site update: requires [C13:written-node-is-scheduled-before-the-size-policy-may-evict-it] !c.withExpiration || !alive(n) || ghost_inWheel(n)

//@ func (*cache).afterDelete : C01 C03 C05 C06 C09
//@   counted
//@   requires cfg(c)
//@   modifies $MAINT, $EVLOG, $ONDEL, ghost_queued(), ghost_calls_performCleanUp(), ghost_calls_afterWriteTask(), ghost_calls_runTask(), ghost_calls_getTask(), task::*, ghost_buffered(*)
//@   site afterWriteTask: requires [C05:delete-event-carries-the-removed-node] ghost_last_getTask_result[K, V]() != nil && ghost_last_getTask_result[K, V]().n == deleted && ghost_last_getTask_result[K, V]().writeReason == deleteReason && ghost_last_getTask_result[K, V]().deletionCause == pickCause(live(deleted, nowNano), CauseInvalidation, CauseExpiration)
//@   site runTask: requires [C06:directly-applied-delete-event-carries-the-removed-node-and-a-truthful-cause] ghost_last_getTask_result[K, V]() != nil && ghost_last_getTask_result[K, V]().n == deleted && ghost_last_getTask_result[K, V]().writeReason == deleteReason && ghost_last_getTask_result[K, V]().deletionCause == pickCause(live(deleted, nowNano), CauseInvalidation, CauseExpiration)
//@   ensures [C05:nothing-removed-nothing-told] deleted == nil ==> ghost_calls_afterWriteTask() == pre(ghost_calls_afterWriteTask()) && ghost_calls_runTask() == pre(ghost_calls_runTask()) && ghost_calls_onDeletion() == pre(ghost_calls_onDeletion())
//@   ensures [C06:invalidation-reported-without-maintenance] deleted != nil && !c.withMaintenance && c.onDeletion != nil ==> ghost_calls_onDeletion() == pre(ghost_calls_onDeletion()) + 1 && same(ghost_arg_onDeletion_1[V](), ghost_value(deleted))
//@   ensures [C05:one-delete-event-per-removal] deleted != nil && c.withMaintenance ==> (alreadyLocked ==> ghost_calls_runTask() == pre(ghost_calls_runTask()) + 1 && ghost_last_runTask_t[K, V]() == ghost_last_getTask_result[K, V]() && ghost_calls_afterWriteTask() == pre(ghost_calls_afterWriteTask())) && (!alreadyLocked ==> ghost_calls_afterWriteTask() == pre(ghost_calls_afterWriteTask()) + 1 && ghost_last_afterWriteTask_t[K, V]() == ghost_last_getTask_result[K, V]())
//@   ensures [clock-stable] pre(ghost_clockRead()) ==> ghost_clockRead() && ghost_now() == pre(ghost_now())
//@   ensures [wiring-kept] pre(wired(c)) ==> wired(c)
//@   site getTask: assume [A-buffer] !ghost_buffered(ghost_last_getTask_result[K, V]())
//@   note A-buffer: an event object taken from the pool is not in the write buffer (events are returned to the pool only after they were handed out by the buffer or applied directly)

//@ func (*cache).getNode : C01 C03 C20 C12
//@   requires cfg(c) && nowNano >= 0
//@   modifies $MAINT, $EVLOG, ghost_hits(), ghost_misses(), ghost_calls_ExpireAfterRead(), ghost_ret_ExpireAfterRead(), node::expiresAt
//@   ensures [C03:read-live-only] result != nil ==> result == pre(ghost_tbl(c.hashmap, key)) && liveAt(result, pre(ghost_expiresAt(ghost_tbl(c.hashmap, key))), nowNano) && same(ghost_key(result), key)
//@   ensures [C01:read-finds] liveAt(pre(ghost_tbl(c.hashmap, key)), pre(ghost_expiresAt(ghost_tbl(c.hashmap, key))), nowNano) ==> result == pre(ghost_tbl(c.hashmap, key))
//@   ensures [C20:one-lookup] ghost_hits()+ghost_misses() == pre(ghost_hits()+ghost_misses()) + 1
//@   ensures [C20:hit-iff-live] ghost_hits() == pre(ghost_hits()) + pickU64(result != nil, 1, 0)
//@   ensures [C12:read-deadline] result != nil && c.withExpiration ==> ghost_expiresAt(result) == pickI64(ghost_ret_ExpireAfterRead() > 0, satadd(nowNano, int64(ghost_ret_ExpireAfterRead())), pre(ghost_expiresAt(ghost_tbl(c.hashmap, key))))
//@   ensures [C03:miss-touches-no-deadline] result == nil && pre(ghost_tbl(c.hashmap, key)) != nil ==> ghost_expiresAt(pre(ghost_tbl(c.hashmap, key))) == pre(ghost_expiresAt(ghost_tbl(c.hashmap, key)))
//@   ensures [clock-stable] pre(ghost_clockRead()) ==> ghost_clockRead() && ghost_now() == pre(ghost_now())
//@   ensures [wiring-kept] pre(wired(c)) ==> wired(c)

//@ func (*cache).GetIfPresent : C01 C03 C20
//@   requires cfg(c)
//@   modifies *
//@   ensures [C03:no-value-after-deadline] r1 ==> liveAt(pre(ghost_tbl(c.hashmap, key)), pre(ghost_expiresAt(ghost_tbl(c.hashmap, key))), ghost_now()) && same(r0, ghost_value(pre(ghost_tbl(c.hashmap, key))))
//@   ensures [C01:present-is-found] liveAt(pre(ghost_tbl(c.hashmap, key)), pre(ghost_expiresAt(ghost_tbl(c.hashmap, key))), ghost_now()) ==> r1
//@   ensures [C01:absent-zero] !r1 ==> same(r0, zeroValue[V]())
//@   ensures [C20:one-lookup] ghost_hits()+ghost_misses() == pre(ghost_hits()+ghost_misses()) + 1 && ghost_hits() == pre(ghost_hits()) + pickU64(r1, 1, 0)
//@   ensures [wiring-kept] pre(wired(c)) ==> wired(c)
//@   ensures [clock-stable] pre(ghost_clockRead()) ==> ghost_clockRead() && ghost_now() == pre(ghost_now())

//@ func (*cache).GetEntry : C01 C03 C20
//@   requires cfg(c)
//@   modifies *
//@   ensures [C03:no-entry-after-deadline] r1 ==> liveAt(pre(ghost_tbl(c.hashmap, key)), pre(ghost_expiresAt(ghost_tbl(c.hashmap, key))), ghost_now()) && same(r0.Value, ghost_value(pre(ghost_tbl(c.hashmap, key)))) && same(r0.Key, key)
//@   ensures [C01:present-is-found] liveAt(pre(ghost_tbl(c.hashmap, key)), pre(ghost_expiresAt(ghost_tbl(c.hashmap, key))), ghost_now()) ==> r1
//@   ensures [C12:entry-deadline-is-node-deadline] r1 && c.withExpiration ==> r0.ExpiresAtNano == ghost_expiresAt(pre(ghost_tbl(c.hashmap, key))) && r0.ExpiresAtNano > r0.SnapshotAtNano
//@   ensures [C20:one-lookup] ghost_hits()+ghost_misses() == pre(ghost_hits()+ghost_misses()) + 1 && ghost_hits() == pre(ghost_hits()) + pickU64(r1, 1, 0)
//@   ensures [wiring-kept] pre(wired(c)) ==> wired(c)

//@ func (*cache).GetEntryQuietly : C01 C03 C20
//@   requires cfg(c)
//@   modifies ghost_now(), ghost_clockRead()
//@   ensures [C03:no-entry-after-deadline] r1 ==> live(ghost_tbl(c.hashmap, key), ghost_now()) && same(r0.Value, ghost_value(ghost_tbl(c.hashmap, key))) && same(r0.Key, key)
//@   ensures [C01:present-is-found] live(ghost_tbl(c.hashmap, key), ghost_now()) && alive(ghost_tbl(c.hashmap, key)) ==> r1
//@   ensures [C12:entry-deadline-is-node-deadline] r1 && c.withExpiration ==> r0.ExpiresAtNano == ghost_expiresAt(ghost_tbl(c.hashmap, key))
//@   ensures [C20:quiet] ghost_hits() == pre(ghost_hits()) && ghost_misses() == pre(ghost_misses())

//@ func (*cache).set : C01 C03 C06 C09 C20 C05 C13 C07 C04
//@   inline verified on its own and inlined into Set / SetIfAbsent
//@   mode seq,itf
//@   requires cfg(c) && c.singleflight != nil
//@   modifies *
//@   ensures [C03:expired-or-missing-reported-absent] !lp(live(ghost_tbl(c.hashmap, key), ghost_now())) ==> r1 && same(r0, value)
//@   ensures [C01:present-reported-with-its-value] lp(live(ghost_tbl(c.hashmap, key), ghost_now())) ==> !r1 && same(r0, lp(ghost_value(ghost_tbl(c.hashmap, key))))
//@   ensures [C01:installs-unless-present-and-only-if-absent] !onlyIfAbsent || !lp(live(ghost_tbl(c.hashmap, key), ghost_now())) ==> lpend(ghost_lpNew(c.hashmap)) != nil && lpend(ghost_lpNew(c.hashmap)) != lpend(ghost_lpCur(c.hashmap)) && same(ghost_value(lpend(ghost_lpNew(c.hashmap))), value) && same(ghost_key(lpend(ghost_lpNew(c.hashmap))), key)
//@   ensures [C01:set-if-absent-keeps-present] onlyIfAbsent && lp(live(ghost_tbl(c.hashmap, key), ghost_now())) ==> lpend(ghost_lpNew(c.hashmap)) == lpend(ghost_lpCur(c.hashmap))
//@   ensures [C01:one-atomic-access] lpend(ghost_lpCount(c.hashmap)) == pre(ghost_lpCount(c.hashmap)) + 1 && lpend(ghost_lpCur(c.hashmap)) == lp(ghost_tbl(c.hashmap, key))
//@   ensures [C06:atomic-once] c.onAtomicDeletion != nil ==> lpend(ghost_calls_onAtomicDeletion()) == lp(ghost_calls_onAtomicDeletion()) + pickInt(lpend(ghost_lpCur(c.hashmap)) != nil && lpend(ghost_lpNew(c.hashmap)) != lpend(ghost_lpCur(c.hashmap)), 1, 0)
//@   ensures [C06:reported-value-and-cause] c.onAtomicDeletion != nil && lpend(ghost_lpCur(c.hashmap)) != nil && lpend(ghost_lpNew(c.hashmap)) != lpend(ghost_lpCur(c.hashmap)) ==> same(lpend(ghost_arg_onAtomicDeletion_1[V]()), ghost_value(lpend(ghost_lpCur(c.hashmap)))) && lpend(ghost_arg_onAtomicDeletion_2()) == pickCause(lp(live(ghost_tbl(c.hashmap, key), ghost_now())), CauseReplacement, CauseExpiration)
//@   ensures [C05:policy-told-iff-table-changed] ghost_calls_afterWrite() == pre(ghost_calls_afterWrite()) + pickInt(lpend(ghost_lpNew(c.hashmap)) != lpend(ghost_lpCur(c.hashmap)), 1, 0)
//@   ensures [C05:policy-told-the-right-nodes] lpend(ghost_lpNew(c.hashmap)) != lpend(ghost_lpCur(c.hashmap)) ==> ghost_last_afterWrite_n[K, V]() == lpend(ghost_lpNew(c.hashmap)) && ghost_last_afterWrite_old[K, V]() == lpend(ghost_lpCur(c.hashmap))
//@   ensures [C09:write-clears-call] lpend(ghost_lpNew(c.hashmap)) != lpend(ghost_lpCur(c.hashmap)) && c.singleflight.isInitialized.Load() ==> lpend(ghost_calls(c.singleflight.calls, key)) == nil
//@   ensures [C08:record-kept-when-nothing-written] lpend(ghost_lpNew(c.hashmap)) == lpend(ghost_lpCur(c.hashmap)) ==> lpend(ghost_calls(c.singleflight.calls, key)) == lp(ghost_calls(c.singleflight.calls, key))
//@   ensures [C20:quiet] ghost_hits() == pre(ghost_hits()) && ghost_misses() == pre(ghost_misses())
//@   ensures [clock-stable] pre(ghost_clockRead()) ==> ghost_clockRead() && ghost_now() == pre(ghost_now())

//@ func (*cache).Set : C01 C03 C06 C09
//@   requires cfg(c) && c.singleflight != nil
//@   modifies *
//@   ensures [C03:expired-or-missing-reported-absent] !lp(live(ghost_tbl(c.hashmap, key), ghost_now())) ==> r1 && same(r0, value)
//@   ensures [C01:replaced-value-returned] lp(live(ghost_tbl(c.hashmap, key), ghost_now())) ==> !r1 && same(r0, lp(ghost_value(ghost_tbl(c.hashmap, key))))
//@   ensures [C01:installs] lpend(ghost_lpNew(c.hashmap)) != nil && same(ghost_value(lpend(ghost_lpNew(c.hashmap))), value)
//@   ensures [wiring-kept] pre(wired(c)) ==> wired(c)
//@   ensures [clock-stable] pre(ghost_clockRead()) ==> ghost_clockRead() && ghost_now() == pre(ghost_now())

//@ func (*cache).SetIfAbsent : C01 C03 C06 C09
//@   requires cfg(c) && c.singleflight != nil
//@   modifies *
//@   ensures [C03:expired-or-missing-reported-absent] !lp(live(ghost_tbl(c.hashmap, key), ghost_now())) ==> r1 && same(r0, value) && lpend(ghost_lpNew(c.hashmap)) != nil && same(ghost_value(lpend(ghost_lpNew(c.hashmap))), value)
//@   ensures [C01:present-kept] lp(live(ghost_tbl(c.hashmap, key), ghost_now())) ==> !r1 && same(r0, lp(ghost_value(ghost_tbl(c.hashmap, key)))) && lpend(ghost_lpNew(c.hashmap)) == lpend(ghost_lpCur(c.hashmap))
//@   ensures [wiring-kept] pre(wired(c)) ==> wired(c)
//@   ensures [clock-stable] pre(ghost_clockRead()) ==> ghost_clockRead() && ghost_now() == pre(ghost_now())

//@ func (*cache).Invalidate : C01 C03 C06 C09 C20 C05 C13 C07 C04
//@   mode seq,itf
//@   requires cfg(c) && c.singleflight != nil
//@   modifies *
//@   ensures [C03:expired-or-missing-reported-absent] !lp(live(ghost_tbl(c.hashmap, key), ghost_now())) ==> !invalidated && same(value, zeroValue[V]())
//@   ensures [C01:present-reported-with-its-value] lp(live(ghost_tbl(c.hashmap, key), ghost_now())) ==> invalidated && same(value, lp(ghost_value(ghost_tbl(c.hashmap, key))))
//@   ensures [C01:removes] lpend(ghost_lpNew(c.hashmap)) == nil && lpend(ghost_lpCount(c.hashmap)) == pre(ghost_lpCount(c.hashmap)) + 1
//@   ensures [C06:atomic-once] c.onAtomicDeletion != nil ==> lpend(ghost_calls_onAtomicDeletion()) == lp(ghost_calls_onAtomicDeletion()) + pickInt(lpend(ghost_lpCur(c.hashmap)) != nil, 1, 0)
//@   ensures [C06:reported-value-and-cause] c.onAtomicDeletion != nil && lpend(ghost_lpCur(c.hashmap)) != nil ==> same(lpend(ghost_arg_onAtomicDeletion_1[V]()), ghost_value(lpend(ghost_lpCur(c.hashmap)))) && lpend(ghost_arg_onAtomicDeletion_2()) == pickCause(lp(live(ghost_tbl(c.hashmap, key), ghost_now())), CauseInvalidation, CauseExpiration)
//@   ensures [C05:policy-told-iff-removed] ghost_calls_afterDelete() == pre(ghost_calls_afterDelete()) + 1 && ghost_last_afterDelete_deleted[K, V]() == lpend(ghost_lpCur(c.hashmap))
//@   ensures [C09:write-clears-call] c.singleflight.isInitialized.Load() ==> lpend(ghost_calls(c.singleflight.calls, key)) == nil
//@   ensures [C20:quiet] ghost_hits() == pre(ghost_hits()) && ghost_misses() == pre(ghost_misses())
//@   ensures [wiring-kept] pre(wired(c)) ==> wired(c)

// The periodic clean-up goroutine of an expiring cache: every tick of the clock runs one maintenance pass, whatever the
// drain status (this is what bounds the expiration latency by one tick independently of the executor).
//@ func (*cache).periodicCleanUp : C13
//@   requires cfg(c)
//@   modifies *
//@   loop 1: invariant [wiring] cfg(c)
//@   site ProcessTick: requires [C13:every-tick-runs-a-clean-up] ghost_calls_performCleanUp() == iter(ghost_calls_performCleanUp()) + 1

//@ func (*cache).CleanUp : C13 C04 C05
//@   requires cfg(c)
//@   modifies $MAINT, ghost_calls_performCleanUp()
//@   ensures [C13:clean-up-runs-maintenance] ghost_calls_performCleanUp() == pre(ghost_calls_performCleanUp()) + 1 && ghost_last_performCleanUp_t[K, V]() == nil
//@   ensures [wiring-kept] wired(c)
//@   ensures [clock-stable] pre(ghost_clockRead()) ==> ghost_clockRead() && ghost_now() == pre(ghost_now())

//@ func (*cache).WeightedSize : C05
//@   requires cfg(c)
//@   modifies $MAINT
//@   site rescheduleCleanUpIfIncomplete: requires [C05:reports-the-policy-total-read-under-the-eviction-lock] !c.isWeighted || result == c.evictionPolicy.weightedSize
//@   ensures [C05:unweighted-cache-reports-zero] !c.isWeighted ==> result == 0 && ghost_calls_maintenance() == pre(ghost_calls_maintenance())
//@   ensures [wiring-kept] wired(c)
//@   ensures [C13:the-eviction-lock-is-released] !pre(mutexHeld(&c.evictionMutex)) ==> !mutexHeld(&c.evictionMutex)

//@ func (*cache).GetMaximum : C04
//@   requires cfg(c)
//@   modifies $MAINT
//@   site rescheduleCleanUpIfIncomplete: requires [C04:reports-the-maximum-in-force] result == c.evictionPolicy.maximum && result == pre(c.evictionPolicy.maximum)
//@   ensures [C07:unbounded-cache-has-no-maximum] !c.withEviction ==> result == math.MaxUint64
//@   ensures [wiring-kept] wired(c)
//@   ensures [C13:the-eviction-lock-is-released] !pre(mutexHeld(&c.evictionMutex)) ==> !mutexHeld(&c.evictionMutex)

//@ func (*cache).deleteNodeFromMap : C01 C03 C06 C09 C05 C07
//@   mode seq,itf
//@   requires cfg(c) && c.singleflight != nil && n != nil
//@   modifies ghost_tbl(c.hashmap, ghost_key(n)), n.state, ghost_calls(c.singleflight.calls, ghost_key(n)), $ATOMICEV
//@   ensures [C06:removes-only-the-given-node] result == pickNode(ghost_lpCur(c.hashmap) == n, n, nil) && ghost_lpNew(c.hashmap) == pickNode(ghost_lpCur(c.hashmap) == n, nil, ghost_lpCur(c.hashmap))
//@   ensures [C06:atomic-once] c.onAtomicDeletion != nil ==> ghost_calls_onAtomicDeletion() == pre(ghost_calls_onAtomicDeletion()) + pickInt(result != nil, 1, 0)
//@   ensures [C06:reported-value-and-cause] c.onAtomicDeletion != nil && result != nil ==> same(ghost_arg_onAtomicDeletion_1[V](), ghost_value(n)) && ghost_arg_onAtomicDeletion_2() == pickCause(lp(live(n, nowNano)), cause, CauseExpiration)
//@   ensures [C09:eviction-clears-call] c.singleflight.isInitialized.Load() ==> lpend(ghost_calls(c.singleflight.calls, ghost_key(n))) == nil
//@   ensures [C05:removed-node-retired] result != nil && c.withMaintenance && lp(alive(n)) ==> lpend(ghost_state(n)) == 1

//@ func (*cache).doCompute : C01 C03 C06 C09 C20 C05 C08 C13 C07 C04
//@   mode seq,itf
//@   panics
//@   inline verified on its own and inlined into Compute / ComputeIfAbsent / ComputeIfPresent (their wrapper closures are executed concretely)
//@   requires cfg(c) && c.singleflight != nil && nowNano >= 0
//@   modifies *
//@   ensures [C03:callback-sees-expired-as-absent] ghost_calls_remappingFunc() == pre(ghost_calls_remappingFunc()) + 1 && ghost_arg_remappingFunc_1() == lp(live(ghost_tbl(c.hashmap, key), nowNano)) && same(ghost_arg_remappingFunc_0[V](), lp(pickV(live(ghost_tbl(c.hashmap, key), nowNano), ghost_value(ghost_tbl(c.hashmap, key)), zeroValue[V]())))
//@   ensures [C01:cancel-keeps-live-drops-expired] ghost_ret_remappingFunc_1() == CancelOp ==> lpend(ghost_lpNew(c.hashmap)) == pickNode(lp(live(ghost_tbl(c.hashmap, key), nowNano)), lpend(ghost_lpCur(c.hashmap)), nil)
//@   ensures [C01:write-installs] ghost_ret_remappingFunc_1() == WriteOp ==> lpend(ghost_lpNew(c.hashmap)) != nil && lpend(ghost_lpNew(c.hashmap)) != lpend(ghost_lpCur(c.hashmap)) && same(ghost_value(lpend(ghost_lpNew(c.hashmap))), ghost_ret_remappingFunc_0[V]()) && same(ghost_key(lpend(ghost_lpNew(c.hashmap))), key)
//@   ensures [C01:invalidate-removes] ghost_ret_remappingFunc_1() == InvalidateOp ==> lpend(ghost_lpNew(c.hashmap)) == nil
//@   ensures [C01:result-is-table-content] r1 == (lpend(ghost_lpNew(c.hashmap)) != nil) && (r1 ==> same(r0, ghost_value(lpend(ghost_lpNew(c.hashmap))))) && (!r1 ==> same(r0, zeroValue[V]()))
//@   ensures [C01:one-atomic-access] lpend(ghost_lpCount(c.hashmap)) == pre(ghost_lpCount(c.hashmap)) + 1 && lpend(ghost_lpCur(c.hashmap)) == lp(ghost_tbl(c.hashmap, key))
//@   ensures [C06:atomic-once] c.onAtomicDeletion != nil ==> lpend(ghost_calls_onAtomicDeletion()) == lp(ghost_calls_onAtomicDeletion()) + pickInt(lpend(ghost_lpCur(c.hashmap)) != nil && lpend(ghost_lpNew(c.hashmap)) != lpend(ghost_lpCur(c.hashmap)), 1, 0)
//@   ensures [C06:reported-value-and-cause] c.onAtomicDeletion != nil && lpend(ghost_lpCur(c.hashmap)) != nil && lpend(ghost_lpNew(c.hashmap)) != lpend(ghost_lpCur(c.hashmap)) ==> same(lpend(ghost_arg_onAtomicDeletion_1[V]()), ghost_value(lpend(ghost_lpCur(c.hashmap)))) && lpend(ghost_arg_onAtomicDeletion_2()) == pickCause(lp(live(ghost_tbl(c.hashmap, key), nowNano)), pickCause(ghost_ret_remappingFunc_1() == WriteOp, CauseReplacement, CauseInvalidation), CauseExpiration)
//@   ensures [C05:write-tells-policy] ghost_calls_afterWrite() == pre(ghost_calls_afterWrite()) + pickInt(ghost_ret_remappingFunc_1() == WriteOp, 1, 0) && (ghost_ret_remappingFunc_1() == WriteOp ==> ghost_last_afterWrite_n[K, V]() == lpend(ghost_lpNew(c.hashmap)) && ghost_last_afterWrite_old[K, V]() == lpend(ghost_lpCur(c.hashmap)))
//@   ensures [C05:removal-tells-policy] ghost_ret_remappingFunc_1() != WriteOp && lpend(ghost_lpCur(c.hashmap)) != nil && lpend(ghost_lpNew(c.hashmap)) == nil ==> ghost_calls_afterDelete() == pre(ghost_calls_afterDelete()) + 1 && ghost_last_afterDelete_deleted[K, V]() == lpend(ghost_lpCur(c.hashmap))
//@   ensures [C05:no-removal-no-delete-task] ghost_ret_remappingFunc_1() != WriteOp && lpend(ghost_lpNew(c.hashmap)) == lpend(ghost_lpCur(c.hashmap)) && lpend(ghost_lpCur(c.hashmap)) != nil ==> ghost_calls_afterDelete() == pre(ghost_calls_afterDelete())
//@   ensures [C09:write-clears-call] lpend(ghost_lpNew(c.hashmap)) != lpend(ghost_lpCur(c.hashmap)) && c.singleflight.isInitialized.Load() ==> lpend(ghost_calls(c.singleflight.calls, key)) == nil
//@   ensures [C08:cancelled-compute-keeps-inflight-load] ghost_ret_remappingFunc_1() == CancelOp && lpend(ghost_lpNew(c.hashmap)) == lpend(ghost_lpCur(c.hashmap)) ==> lpend(ghost_calls(c.singleflight.calls, key)) == lp(ghost_calls(c.singleflight.calls, key))
//@   ensures [C20:one-lookup-when-counting] recordStats ==> ghost_hits()+ghost_misses() == pre(ghost_hits()+ghost_misses()) + 1 && ghost_hits() == pre(ghost_hits()) + pickU64(lp(live(ghost_tbl(c.hashmap, key), nowNano)), 1, 0)
//@   ensures [C20:quiet-otherwise] !recordStats ==> ghost_hits() == pre(ghost_hits()) && ghost_misses() == pre(ghost_misses())
//@   ensures [C09:invalidation-clears-call-even-without-an-entry] ghost_ret_remappingFunc_1() == InvalidateOp && c.singleflight.isInitialized.Load() ==> lpend(ghost_calls(c.singleflight.calls, key)) == nil

//@ func (*cache).Compute : C01 C03 C06 C09 C20
//@   panics
//@   requires cfg(c) && c.singleflight != nil
//@   modifies *
//@   ensures [C03:callback-sees-expired-as-absent] ghost_calls_remappingFunc() == pre(ghost_calls_remappingFunc()) + 1 && ghost_arg_remappingFunc_1() == lp(live(ghost_tbl(c.hashmap, key), ghost_now()))
//@   ensures [C01:result-is-table-content] r1 == (lpend(ghost_lpNew(c.hashmap)) != nil) && (r1 ==> same(r0, ghost_value(lpend(ghost_lpNew(c.hashmap))))) && (!r1 ==> same(r0, zeroValue[V]()))
//@   ensures [C20:one-lookup] ghost_hits()+ghost_misses() == pre(ghost_hits()+ghost_misses()) + 1 && ghost_hits() == pre(ghost_hits()) + pickU64(lp(live(ghost_tbl(c.hashmap, key), ghost_now())), 1, 0)
//@   ensures [wiring-kept] pre(wired(c)) ==> wired(c)

//@ func (*cache).ComputeIfAbsent : C01 C03 C20
//@   panics
//@   requires cfg(c) && c.singleflight != nil
//@   modifies *
//@   ensures [C03:present-returns-without-computing] liveAt(pre(ghost_tbl(c.hashmap, key)), pre(ghost_expiresAt(ghost_tbl(c.hashmap, key))), ghost_now()) ==> r1 && same(r0, ghost_value(pre(ghost_tbl(c.hashmap, key)))) && ghost_calls_mappingFunc() == pre(ghost_calls_mappingFunc())
//@   ensures [C03:expired-or-missing-computes-at-most-once] !liveAt(pre(ghost_tbl(c.hashmap, key)), pre(ghost_expiresAt(ghost_tbl(c.hashmap, key))), ghost_now()) ==> ghost_calls_mappingFunc() == pre(ghost_calls_mappingFunc()) || ghost_calls_mappingFunc() == pre(ghost_calls_mappingFunc())+1
//@   ensures [C01:result-is-table-content] !liveAt(pre(ghost_tbl(c.hashmap, key)), pre(ghost_expiresAt(ghost_tbl(c.hashmap, key))), ghost_now()) ==> r1 == (lpend(ghost_lpNew(c.hashmap)) != nil)
//@   ensures [C20:one-lookup] ghost_hits()+ghost_misses() == pre(ghost_hits()+ghost_misses()) + 1
//@   ensures [wiring-kept] pre(wired(c)) ==> wired(c)

//@ func (*cache).ComputeIfPresent : C01 C03 C20
//@   panics
//@   requires cfg(c) && c.singleflight != nil
//@   modifies *
//@   ensures [C03:expired-or-missing-is-absent] !liveAt(pre(ghost_tbl(c.hashmap, key)), pre(ghost_expiresAt(ghost_tbl(c.hashmap, key))), ghost_now()) ==> !r1 && same(r0, zeroValue[V]()) && ghost_calls_remappingFunc() == pre(ghost_calls_remappingFunc())
//@   ensures [C20:one-lookup] ghost_hits()+ghost_misses() == pre(ghost_hits()+ghost_misses()) + 1
//@   ensures [wiring-kept] pre(wired(c)) ==> wired(c)

// iteration: only live entries are handed to the consumer
//@ func (*cache).nodes : C01 C03
//@   requires cfg(c)
//@   modifies *
//@   result-callback yield: requires [C03:iterates-live-only] cb0 == ghost_ranged[K, V]() && live(cb0, ghost_now()) && alive(cb0) && ghost_clockRead()
//@   ensures [wiring-kept] pre(wired(c)) ==> wired(c)
//@   loop nodes$1$1:0: invariant [wiring] wired(c)

//@ func (*cache).All : C01 C03
//@   requires cfg(c)
//@   modifies *
//@   result-callback yield: requires [C03:iterates-live-only] same(cb0, ghost_key(ghost_ranged[K, V]())) && same(cb1, ghost_value(ghost_ranged[K, V]())) && live(ghost_ranged[K, V](), ghost_now()) && alive(ghost_ranged[K, V]())
//@   ensures [wiring-kept] pre(wired(c)) ==> wired(c)

//@ func (*cache).Keys : C01 C03
//@   requires cfg(c)
//@   modifies *
//@   result-callback yield: requires [C03:iterates-live-only] same(cb0, ghost_key(ghost_ranged[K, V]())) && live(ghost_ranged[K, V](), ghost_now()) && alive(ghost_ranged[K, V]())
//@   ensures [wiring-kept] pre(wired(c)) ==> wired(c)

//@ func (*cache).Values : C01 C03
//@   requires cfg(c)
//@   modifies *
//@   result-callback yield: requires [C03:iterates-live-only] same(cb0, ghost_value(ghost_ranged[K, V]())) && live(ghost_ranged[K, V](), ghost_now()) && alive(ghost_ranged[K, V]())
//@   ensures [wiring-kept] pre(wired(c)) ==> wired(c)

//@ func (*cache).entries : C01 C03 C19
//@   requires cfg(c)
//@   modifies *
//@   result-callback yield: requires [C03:iterates-live-only] same(cb0.Key, ghost_key(ghost_ranged[K, V]())) && same(cb0.Value, ghost_value(ghost_ranged[K, V]())) && (!c.withExpiration || cb0.ExpiresAtNano > cb0.SnapshotAtNano) && alive(ghost_ranged[K, V]())
//@   ensures [wiring-kept] pre(wired(c)) ==> wired(c)

//@ func (*cache).evictionOrder : C01 C03 C19 C05
//@   requires cfg(c)
//@   modifies *
//@   result-callback yield: requires [C03:ordered-iteration-live-only] !c.withExpiration || cb0.ExpiresAtNano > cb0.SnapshotAtNano
//@   result-callback yield: requires [C19:ordering-reflects-every-recorded-write] !c.withEviction || ghost_calls_maintenance() == pre(ghost_calls_maintenance())+1
//@   ensures [wiring-kept] pre(wired(c)) ==> wired(c)

// ---------------------------------------------------------------------------------------------
// Loads: single flight (C08), no overwrite of newer writes (C09), outcome table (C10), statistics (C20)
// ---------------------------------------------------------------------------------------------

//@ func (*realSource).NowNano : C20 C12
//@   assumed wall clock (time.Since on a monotonic base); only non-negativity is used
//@   ensures [real-clock-nonneg] result >= 0

//@ func newPanicError : C08 C10
//@   assumed wraps the recovered value with a stack trace (runtime/debug)
//@   counted
//@   fresh
//@   ensures [panic-error-nonnil] result != nil

//@ func (*group).init : C08 C10 C11
//@   assumed lazily creates the call table under a mutex (hashmap.New)
//@   modifies g.calls, g.isInitialized
//@   ensures [call-table-ready] g.calls != nil && g.isInitialized.Load()

//@ func (*group).startCall : C08
//@   counted
//@   mode seq,itf
//@   requires g.calls != nil
//@   modifies ghost_calls(g.calls, key)
//@   ensures [C08:joins-existing-call] !shouldLoad ==> c != nil && same(c.key, key)
//@   ensures [C08:creates-only-when-none-registered] shouldLoad ==> c != nil && ghost_clpCur(g.calls) == nil && ghost_clpNew(g.calls) == c && same(c.key, key) && c.isRefresh == isRefresh && !c.isFake
//@   ensures @seq [C08:registers-exactly-when-no-record-exists] shouldLoad == (pre(ghost_calls(g.calls, key)) == nil) && ghost_calls(g.calls, key) == c && (!shouldLoad ==> c == pre(ghost_calls(g.calls, key)))
//@   ensures [C08:second-caller-does-not-load] ghost_clpCount(g.calls) != pre(ghost_clpCount(g.calls)) && ghost_clpCur(g.calls) != nil ==> !shouldLoad && c == ghost_clpCur(g.calls) && ghost_clpNew(g.calls) == ghost_clpCur(g.calls)

//@ func (*group).deleteCall : C08 C09
//@   mode seq
//@   note called only from afterDeleteCall, inside the node table's critical section for the same key, where the call-table entry of that key cannot change concurrently (every writer of it holds that bucket lock)
//@   requires g.calls != nil && c != nil
//@   modifies ghost_calls(g.calls, c.key)
//@   ensures @seq [C08:removes-exactly-its-own-record] deleted == (pre(ghost_calls(g.calls, c.key)) == c) && ghost_calls(g.calls, c.key) == pickCall(deleted, nil, pre(ghost_calls(g.calls, c.key)))
//@   ensures [C09:removes-only-own-record] deleted ==> ghost_clpCount(g.calls) == pre(ghost_clpCount(g.calls)) + 1 && ghost_clpCur(g.calls) == c && ghost_clpNew(g.calls) == nil
//@   ensures [C09:foreign-record-kept] ghost_clpCount(g.calls) != pre(ghost_clpCount(g.calls)) && ghost_clpCur(g.calls) != c ==> !deleted && ghost_clpNew(g.calls) == ghost_clpCur(g.calls)

//@ func (*group).doCall : C08 C10
//@   counted
//@   panics
//@   requires c != nil && ghost_calls_load() == 0
//@   modifies c.value, c.err, c.isNotFound, ghost_calls_load(), ghost_calls_afterFinish(), ghost_calls_newPanicError(), ghost_calls_Load(), ghost_calls_Reload(), $CACHEFX
//@   callback load: modifies ghost_calls_Load(), ghost_calls_Reload()
//@   callback load: ensures [C20:the-load-callback-invokes-the-user-loader-exactly-once] ghost_calls_Load()+ghost_calls_Reload() == pre(ghost_calls_Load()+ghost_calls_Reload()) + 1
//@   ensures [C20:a-recorded-load-is-exactly-one-loader-invocation] ghost_calls_Load()+ghost_calls_Reload() == pre(ghost_calls_Load()+ghost_calls_Reload()) + 1
//@   callback afterFinish: requires [C08:finish-after-load] cb_c == c && ghost_calls_load() == 1
//@   callback afterFinish: modifies $CACHEFX
//@   callback afterFinish: ensures [clock-stable] pre(ghost_clockRead()) ==> ghost_clockRead() && ghost_now() == pre(ghost_now())
//@   ensures [clock-stable] pre(ghost_clockRead()) ==> ghost_clockRead() && ghost_now() == pre(ghost_now())
//@   ensures [C08:loader-invoked-once] ghost_calls_load() == pre(ghost_calls_load()) + 1
//@   ensures [C08:finish-always] ghost_calls_afterFinish() == pre(ghost_calls_afterFinish()) + 1
//@   ensures [C10:error-recorded] c.err == err && c.isNotFound == errors.Is(err, ErrNotFound)
//@   ensures on-panic [C20:a-loader-panic-is-returned-as-an-error-never-raised-past-the-load-accounting] false
//@   ensures [C10:loader-outcome-recorded-unchanged] ghost_calls_newPanicError() == pre(ghost_calls_newPanicError()) ==> err == ghost_ret_load_1() && same(c.value, ghost_ret_load_0[V]())
//@   own-modifies c.value, c.err, c.isNotFound, ghost_calls_load(), ghost_calls_newPanicError(), ghost_calls_Load(), ghost_calls_Reload()

//@ func (*call).wait : C08 C10
//@   assumed definition of the ghost ghost_waited: sync.WaitGroup.Wait returns only after the call's Done, i.e. after its outcome fields are final
//@   counted
//@   note blocks until the call is finished (sync.WaitGroup.Wait); the contract records that, and on which call, it was invoked
//@   modifies ghost_waited(c)
//@   ensures [finished-when-it-returns] ghost_waited(c)

//@ func (*call).cancel : C08
//@   modifies ghost_wgDone(c), ghost_released(c), c.wg
//@   ensures [C08:release-once] ghost_wgDone(c) == pre(ghost_wgDone(c)) + pickInt(c.isFake, 0, 1) && (!c.isFake ==> ghost_released(c))

//@ func (*cache).afterDeleteCall : C09 C10 C08 C11 C06 C01 C03 C13 C12 C07 C04
//@   mode seq,itf
//@   requires cfg(c) && c.singleflight != nil && cl != nil && c.singleflight.calls != nil && c.singleflight.isInitialized.Load()
//@   modifies $CACHEFX0, ghost_wgDone(cl), ghost_released(cl), cl.wg
//@   ensures [clock-stable] pre(ghost_clockRead()) ==> ghost_clockRead() && ghost_now() == pre(ghost_now())
//@   ensures [C09:install-only-own-call] lpend(ghost_lpNew(c.hashmap)) != lpend(ghost_lpCur(c.hashmap)) ==> cl.isFake || (lpend(ghost_clpCur(c.singleflight.calls)) == cl && lpend(ghost_clpNew(c.singleflight.calls)) == nil && lpend(ghost_clpCount(c.singleflight.calls)) != pre(ghost_clpCount(c.singleflight.calls)))
//@   ensures [C09:own-record-checked-inside-the-critical-section] lpend(ghost_lpNew(c.hashmap)) != lpend(ghost_lpCur(c.hashmap)) && !cl.isFake ==> lp(ghost_clpCount(c.singleflight.calls)) == pre(ghost_clpCount(c.singleflight.calls)) && lpend(ghost_clpCount(c.singleflight.calls)) != lp(ghost_clpCount(c.singleflight.calls))
//@   ensures @seq [C08:removes-only-its-own-record] lpend(ghost_calls(c.singleflight.calls, cl.key)) == pickCall(!cl.isFake && pre(ghost_calls(c.singleflight.calls, cl.key)) == cl, nil, pre(ghost_calls(c.singleflight.calls, cl.key)))
//@   ensures [C11:failed-reload-reschedules-refresh] cl.err != nil && !cl.isNotFound && cl.isRefresh && lpend(ghost_lpCur(c.hashmap)) != nil && c.withRefresh ==> ghost_calls_RefreshAfterReloadFailure() == pre(ghost_calls_RefreshAfterReloadFailure()) + 1
//@   ensures [C10:success-installs-value] lpend(ghost_lpNew(c.hashmap)) != lpend(ghost_lpCur(c.hashmap)) && lpend(ghost_lpNew(c.hashmap)) != nil ==> cl.err == nil && !cl.isNotFound && same(ghost_value(lpend(ghost_lpNew(c.hashmap))), cl.value) && same(ghost_key(lpend(ghost_lpNew(c.hashmap))), cl.key)
//@   ensures @seq [C10:successful-load-is-cached] cl.err == nil && !cl.isNotFound && (cl.isFake || pre(ghost_calls(c.singleflight.calls, cl.key)) == cl) ==> lpend(ghost_lpNew(c.hashmap)) != nil && lpend(ghost_lpNew(c.hashmap)) != lpend(ghost_lpCur(c.hashmap)) && same(ghost_value(lpend(ghost_lpNew(c.hashmap))), cl.value) && same(ghost_key(lpend(ghost_lpNew(c.hashmap))), cl.key)
//@   ensures @seq [C10:notfound-from-its-own-call-removes-the-entry] cl.isNotFound && (cl.isFake || pre(ghost_calls(c.singleflight.calls, cl.key)) == cl) ==> lpend(ghost_lpNew(c.hashmap)) == nil
//@   ensures [C10:failure-leaves-cache-unchanged] cl.err != nil && !cl.isNotFound ==> lpend(ghost_lpNew(c.hashmap)) == lpend(ghost_lpCur(c.hashmap))
//@   ensures [C10:notfound-caches-nothing] cl.isNotFound ==> lpend(ghost_lpNew(c.hashmap)) == nil || lpend(ghost_lpNew(c.hashmap)) == lpend(ghost_lpCur(c.hashmap))
//@   ensures [C11:failed-reload-keeps-expiry] cl.err != nil && !cl.isNotFound && lpend(ghost_lpCur(c.hashmap)) != nil && c.withExpiration ==> lpend(ghost_expiresAt(ghost_tbl(c.hashmap, cl.key))) == lp(ghost_expiresAt(ghost_tbl(c.hashmap, cl.key)))
//@   ensures [C08:waiters-released-once] ghost_wgDone(cl) == pre(ghost_wgDone(cl)) + pickInt(cl.isFake, 0, 1) && (!cl.isFake ==> ghost_released(cl))
//@   ensures [C06:atomic-once] c.onAtomicDeletion != nil ==> lpend(ghost_calls_onAtomicDeletion()) == lp(ghost_calls_onAtomicDeletion()) + pickInt(lpend(ghost_lpCur(c.hashmap)) != nil && lpend(ghost_lpNew(c.hashmap)) != lpend(ghost_lpCur(c.hashmap)), 1, 0)
//@   ensures [C05:policy-told-iff-table-changed] ghost_calls_afterWrite() == pre(ghost_calls_afterWrite()) + pickInt(lpend(ghost_lpNew(c.hashmap)) != nil && lpend(ghost_lpNew(c.hashmap)) != lpend(ghost_lpCur(c.hashmap)), 1, 0) && ghost_calls_afterDelete() == pre(ghost_calls_afterDelete()) + pickInt(lpend(ghost_lpNew(c.hashmap)) == nil && lpend(ghost_lpCur(c.hashmap)) != nil, 1, 0)
//@   ensures [wiring-kept] pre(wired(c)) ==> wired(c)
//@   site cancel: requires [C08:waiters-released-only-after-the-record-is-gone] ghost_lpCount(c.hashmap) == pre(ghost_lpCount(c.hashmap)) + 1

//@ func (*cache).wrapLoad : C20 C08 C10
//@   inline verified on its own and inlined at its call sites (the closure it runs is executed concretely)
//@   note fn is always a closure around doCall / doBulkCall, which recover loader panics and return them as errors; wrapLoad re-raises them after recording the load
//@   requires cfg(c)
//@   modifies ghost_loadSuccess(), ghost_loadFailure(), ghost_calls_fn(), ghost_ret_fn()
//@   ensures [C20:load-counted-once] ghost_loadSuccess()+ghost_loadFailure() == pre(ghost_loadSuccess()+ghost_loadFailure()) + 1 && ghost_calls_fn() == pre(ghost_calls_fn()) + 1
//@   ensures [C20:success-iff-no-error-or-notfound] ghost_loadSuccess() == pre(ghost_loadSuccess()) + pickU64(ghost_ret_fn() == nil || errors.Is(ghost_ret_fn(), ErrNotFound), 1, 0)
//@   ensures [C10:load-error-passed-through] result == ghost_ret_fn()
//@   ensures on-panic [C20:load-counted-once-on-panic] ghost_loadSuccess()+ghost_loadFailure() == pre(ghost_loadSuccess()+ghost_loadFailure()) + 1 && ghost_calls_fn() == pre(ghost_calls_fn()) + 1

// ---------------------------------------------------------------------------------------------
// Eviction policy: C07 (justified, truthful removals), C04 (oversized / zero-weight / bound), C05 (bookkeeping)
// ---------------------------------------------------------------------------------------------

//@ macro EVICTFX = cb_n.state, node::queueType, node::prev, node::next, node::prevExp, node::nextExp, ghost_inWheel(*), ghost_inDeque(*), policy::weightedSize, policy::windowWeightedSize, policy::mainProtectedWeightedSize, Linked::*, ghost_tbl(*), ghost_calls(*), $EVLOG, $ONDEL, $ATOMICEV
//@ macro POLFX = node::state, node::queueType, node::prev, node::next, node::prevExp, node::nextExp, ghost_inWheel(*), ghost_inDeque(*), policy::weightedSize, policy::windowWeightedSize, policy::mainProtectedWeightedSize, policy::hitsInSample, policy::missesInSample, Linked::*, sketch::*, ghost_calls_increment(), []uint64::*, ghost_tbl(*), ghost_calls(*), $EVLOG, $ONDEL, $ATOMICEV, ghost_calls_rand(), ghost_ret_rand()

//@ func newPolicy : C04 C05
//@   fresh
//@   modifies policy::*, sketch::*, Linked::*
//@   ensures [C05:policy-starts-well-formed] result != nil && wfPolicy(result) && result.sketch.isNotInitialized() && result.isWeighted == isWeighted && result.weightedSize == 0 && result.maximum == 0

//@ func (*policy).setMaximumSize : C04
//@   requires wfPolicy(p) && maximum <= 1<<62
//@   modifies p.maximum, p.windowMaximum, p.mainProtectedMaximum, p.hitsInSample, p.missesInSample, p.stepSize, sketch::*, []uint64::*
//@   ensures [C04:maximum-set] p.maximum == maximum
//@   ensures [policy-wf-kept] wfPolicy(p)

//@ func (*cache).SetMaximum : C04 C07
//@   requires cfg(c) && maximum <= 1<<62
//@   modifies *
//@   site maintenance: requires [C04:bound-changed-before-eviction-runs] c.evictionPolicy.maximum == maximum
//@   site rescheduleCleanUpIfIncomplete: requires [C04:eviction-ran-under-the-new-maximum] ghost_calls_evictNodes() == pre(ghost_calls_evictNodes()) + 1 && c.evictionPolicy.maximum == maximum
//@   ensures [C04:new-maximum-in-force] c.withEviction ==> c.evictionPolicy.maximum == maximum
//@   ensures [C07:unbounded-cache-ignores-it] !c.withEviction ==> ghost_calls_maintenance() == pre(ghost_calls_maintenance()) && ghost_calls_notifyDeletion() == pre(ghost_calls_notifyDeletion())
//@   ensures [wiring-kept] wired(c)
//@   ensures [clock-stable] pre(ghost_clockRead()) ==> ghost_clockRead() && ghost_now() == pre(ghost_now())
//@   ensures [C13:the-eviction-lock-is-released] !pre(mutexHeld(&c.evictionMutex)) ==> !mutexHeld(&c.evictionMutex)

//@ macro CLIMBFX = node::queueType, $LINKFX, ghost_inDeque(*), p.mainProtectedWeightedSize, p.windowWeightedSize, p.mainProtectedMaximum, p.windowMaximum, p.adjustment

//@ func (*policy).determineAdjustment : C04
//@   assumed floating-point part of the hill climber (uninterpreted arithmetic): picks the next adjustment and step size from the sampled hit rate
//@   modifies p.previousSampleHitRate, p.missesInSample, p.hitsInSample, p.adjustment, p.stepSize

//@ func (*policy).demoteFromMainProtected : C04 C05
//@   requires ghost_hasSize() && wfPolicy(p)
//@   modifies node::queueType, $LINKFX, ghost_inDeque(*), p.mainProtectedWeightedSize
//@   loop 1: invariant [policy-wf] wfPolicy(p)
//@   site PushBack: requires [C05:demoted-node-left-the-protected-queue] demoted != nil && !ghost_inDeque(p.protected, demoted)
//@   ensures [policy-wf-kept] wfPolicy(p)

//@ func (*policy).increaseWindow : C04 C05
//@   requires ghost_hasSize() && wfPolicy(p)
//@   modifies $CLIMBFX
//@   loop 1: invariant [policy-wf] wfPolicy(p)
//@   site Delete: requires [C05:moved-out-of-the-queue-it-is-in] candidate != nil && (probation ==> ghost_inDeque(p.probation, candidate)) && (!probation ==> ghost_inDeque(p.protected, candidate))
//@   site PushBack: requires [C05:relinked-only-after-unlinking] candidate != nil && (probation ==> !ghost_inDeque(p.probation, candidate)) && (!probation ==> !ghost_inDeque(p.protected, candidate))
//@   ensures [policy-wf-kept] wfPolicy(p)

//@ func (*policy).decreaseWindow : C04 C05
//@   requires ghost_hasSize() && wfPolicy(p)
//@   modifies $CLIMBFX
//@   loop 1: invariant [policy-wf] wfPolicy(p)
//@   site Delete: requires [C05:moved-out-of-the-queue-it-is-in] candidate != nil && ghost_inDeque(p.window, candidate)
//@   site PushBack: requires [C05:relinked-only-after-unlinking] candidate != nil && !ghost_inDeque(p.window, candidate)
//@   ensures [policy-wf-kept] wfPolicy(p)

//@ func (*policy).climb : C04 C05
//@   requires ghost_hasSize() && wfPolicy(p)
//@   modifies $CLIMBFX, p.previousSampleHitRate, p.missesInSample, p.hitsInSample, p.stepSize
//@   ensures [policy-wf-kept] wfPolicy(p)

//@ func (*policy).makeDead : C04 C05 C07
//@   requires ghost_hasSize() && ghost_hasState() && n != nil
//@   modifies n.state, p.weightedSize, p.windowWeightedSize, p.mainProtectedWeightedSize
//@   ensures [C05:dead-after] ghost_state(n) == 2
//@   ensures [C07:uncounted-exactly-once] p.weightedSize == pre(p.weightedSize) - pickU64(pre(ghost_state(n)) != 2, uint64(weightOf(n)), 0)
//@   ensures [C05:queue-sums-follow] p.windowWeightedSize == pre(p.windowWeightedSize) - pickU64(pre(ghost_state(n)) != 2 && ghost_queueType(n) == node.InWindowQueue, uint64(weightOf(n)), 0) && p.mainProtectedWeightedSize == pre(p.mainProtectedWeightedSize) - pickU64(pre(ghost_state(n)) != 2 && ghost_queueType(n) == node.InMainProtectedQueue, uint64(weightOf(n)), 0)

//@ func (*policy).delete : C04 C05 C07
//@   requires ghost_hasSize() && ghost_hasState() && n != nil && wfPolicy(p)
//@   modifies ghost_inDeque(queueOf(p, n), n), $LINKFX, n.state, p.weightedSize, p.windowWeightedSize, p.mainProtectedWeightedSize
//@   ensures [C05:delete-unlinks] !ghost_inDeque(queueOf(p, n), n) && ghost_state(n) == 2
//@   ensures [C07:uncounted-exactly-once] p.weightedSize == pre(p.weightedSize) - pickU64(pre(ghost_state(n)) != 2, uint64(weightOf(n)), 0)
//@   ensures [policy-wf-kept] wfPolicy(p)

//@ func (*policy).add : C04 C05 C07 C18
//@   requires ghost_hasSize() && ghost_hasState() && n != nil && wfPolicy(p) && p.maximum <= 1<<62
//@   modifies $POLFX, ghost_calls_evictNode()
//@   callback evictNode: requires [C07:overflow-justified] p.weightedSize > p.maximum || uint64(weightOf(cb_n)) > p.maximum
//@   callback evictNode: requires [C07:zero-weight-pinned] weightOf(cb_n) != 0 || !alive(cb_n)
//@   callback evictNode: requires [policy-wf-at-eviction] wfPolicy(p) && cb_n != nil
//@   callback evictNode: modifies $EVICTFX
//@   callback evictNode: ensures [evicted-node-dead] ghost_state(cb_n) == 2
//@   callback evictNode: ensures [C06:one-notification-per-eviction] $EVDELTA == pre($EVDELTA)
//@   ensures [C04:oversize-not-retained] pre(alive(n)) && uint64(weightOf(n)) > p.maximum ==> ghost_calls_evictNode() == pre(ghost_calls_evictNode()) + 1
//@   ensures [C07:fits-not-evicted] uint64(weightOf(n)) <= p.maximum ==> ghost_calls_evictNode() == pre(ghost_calls_evictNode())
//@   ensures [C18:every-arrival-is-recorded-once] ghost_calls_increment() == pre(ghost_calls_increment()) + 1
//@   ensures [C05:add-links-alive-node] pre(alive(n)) && uint64(weightOf(n)) <= p.maximum ==> ghost_inDeque(p.window, n)
//@   ensures [C05:out-of-order-add-not-linked] !pre(alive(n)) ==> ghost_calls_evictNode() == pre(ghost_calls_evictNode())
//@   ensures [C04:added-weight-counted-exactly-once] ghost_calls_evictNode() == pre(ghost_calls_evictNode()) ==> p.weightedSize == pre(p.weightedSize) + uint64(weightOf(n))
//@   ensures [C06:evictions-notified-one-to-one] $EVDELTA == pre($EVDELTA)
//@   ensures [policy-wf-kept] wfPolicy(p)

//@ func (*policy).update : C04 C05 C07 C18
//@   requires ghost_hasSize() && ghost_hasState() && n != nil && old != nil && n != old && wfPolicy(p)
//@   modifies $POLFX, ghost_calls_evictNode()
//@   callback evictNode: requires [C07:overflow-justified] p.weightedSize > p.maximum || uint64(weightOf(cb_n)) > p.maximum
//@   callback evictNode: requires [C07:zero-weight-pinned] weightOf(cb_n) != 0 || !alive(cb_n)
//@   callback evictNode: requires [policy-wf-at-eviction] wfPolicy(p) && cb_n != nil
//@   callback evictNode: modifies $EVICTFX
//@   callback evictNode: ensures [evicted-node-dead] ghost_state(cb_n) == 2
//@   callback evictNode: ensures [C06:one-notification-per-eviction] $EVDELTA == pre($EVDELTA)
//@   ensures [C04:oversize-not-retained] uint64(weightOf(n)) > p.maximum ==> ghost_calls_evictNode() == pre(ghost_calls_evictNode()) + 1
//@   ensures [C07:fits-not-evicted] uint64(weightOf(n)) <= p.maximum ==> ghost_calls_evictNode() == pre(ghost_calls_evictNode())
//@   ensures [C18:an-update-that-keeps-the-entry-in-a-regular-position-is-recorded-once] ghost_calls_increment() == pre(ghost_calls_increment()) + pickInt(ghost_calls_evictNode() == pre(ghost_calls_evictNode()) && !(ghost_queueType(n) == node.InWindowQueue && uint64(weightOf(n)) > p.windowMaximum), 1, 0)
//@   ensures [C05:update-transplants] pre(alive(n)) && uint64(weightOf(n)) <= p.maximum ==> ghost_inDeque(queueOf(p, n), n)
//@   ensures [C05:old-unlinked-and-dead] ghost_state(old) == 2
//@   ensures [C04:updated-weight-counted-exactly-once] ghost_calls_evictNode() == pre(ghost_calls_evictNode()) ==> p.weightedSize == pre(p.weightedSize) + uint64(weightOf(n)) - pickU64(pre(ghost_state(old)) != 2, uint64(weightOf(old)), 0)
//@   ensures [C06:evictions-notified-one-to-one] $EVDELTA == pre($EVDELTA)
//@   ensures [policy-wf-kept] wfPolicy(p)

//@ func (*policy).evictFromWindow : C04 C05 C07
//@   requires ghost_hasSize() && ghost_hasState() && wfPolicy(p)
//@   modifies node::queueType, $LINKFX, ghost_inDeque(*), p.windowWeightedSize
//@   loop 1: invariant [C07:window-demotion-only] wfPolicy(p) && ghost_hasSize() && ghost_hasState() && p.weightedSize == pre(p.weightedSize)
//@   site evictFromWindow.return: requires [C04:window-demotion-stops-only-within-the-window-bound-or-at-the-end-of-the-window] p.windowWeightedSize <= p.windowMaximum || n == nil
//@   ensures [C07:window-overflow-demotes-never-removes] p.weightedSize == pre(p.weightedSize)

//@ func (*policy).evictFromMain : C04 C05 C07 C18
//@   counted
//@   requires ghost_hasSize() && ghost_hasState() && wfPolicy(p)
//@   modifies $POLFX, ghost_calls_evictNode()
//@   callback evictNode: requires [C07:overflow-justified] p.weightedSize > p.maximum || uint64(weightOf(cb_n)) > p.maximum
//@   callback evictNode: requires [C07:zero-weight-pinned] weightOf(cb_n) != 0 || !alive(cb_n)
//@   callback evictNode: requires [evicts-a-node] cb_n != nil
//@   callback evictNode: requires [policy-wf-at-eviction] wfPolicy(p) && cb_n != nil
//@   callback evictNode: modifies $EVICTFX
//@   callback evictNode: ensures [evicted-node-dead] ghost_state(cb_n) == 2
//@   callback evictNode: ensures [C06:one-notification-per-eviction] $EVDELTA == pre($EVDELTA)
//@   loop 1: invariant [policy-wf] wfPolicy(p) && ghost_hasSize() && ghost_hasState()
//@   loop 1: invariant [C06:evictions-notified-one-to-one] $EVDELTA == pre($EVDELTA)
//@   loop 1: invariant [queue-cursors] (victimQueue == node.InMainProbationQueue || victimQueue == node.InMainProtectedQueue || victimQueue == node.InWindowQueue) && (candidateQueue == node.InMainProbationQueue || candidateQueue == node.InWindowQueue)
//@   site evictFromMain.return: requires [C04:eviction-stops-only-within-the-bound-or-when-every-queue-is-exhausted] p.weightedSize <= p.maximum || (victim == nil && victimQueue == node.InWindowQueue)
//@   ensures [C06:evictions-notified-one-to-one] $EVDELTA == pre($EVDELTA)
//@   ensures [policy-wf-kept] wfPolicy(p)

//@ func (*policy).evictNodes : C04 C07
//@   requires ghost_hasSize() && ghost_hasState() && wfPolicy(p)
//@   modifies $POLFX, ghost_calls_evictNode(), ghost_calls_evictFromMain()
//@   callback evictNode: requires [C07:overflow-justified] p.weightedSize > p.maximum || uint64(weightOf(cb_n)) > p.maximum
//@   callback evictNode: requires [C07:zero-weight-pinned] weightOf(cb_n) != 0 || !alive(cb_n)
//@   callback evictNode: requires [evicts-a-node] cb_n != nil
//@   callback evictNode: requires [policy-wf-at-eviction] wfPolicy(p) && cb_n != nil
//@   callback evictNode: modifies $EVICTFX
//@   callback evictNode: ensures [evicted-node-dead] ghost_state(cb_n) == 2
//@   callback evictNode: ensures [C06:one-notification-per-eviction] $EVDELTA == pre($EVDELTA)
//@   ensures [C06:evictions-notified-one-to-one] $EVDELTA == pre($EVDELTA)
//@   ensures [policy-wf-kept] wfPolicy(p)
//@   ensures [C04:size-eviction-always-examines-the-main-space] ghost_calls_evictFromMain() == pre(ghost_calls_evictFromMain()) + 1

//@ func (*cache).evictNode : C06 C07 C20 C05 C04
//@   requires cfg(c) && c.singleflight != nil && n != nil && c.withMaintenance
//@   requires [wiring] (c.withEviction ==> c.evictionPolicy != nil && wfPolicy(c.evictionPolicy)) && (c.withExpiration ==> c.expirationPolicy != nil)
//@   modifies n.state, node::queueType, node::prev, node::next, node::prevExp, node::nextExp, ghost_inWheel(*), ghost_inDeque(*), policy::weightedSize, policy::windowWeightedSize, policy::mainProtectedWeightedSize, Linked::*, ghost_tbl(*), ghost_calls(*), $EVLOG, $ONDEL, $ATOMICEV
//@   ensures [C07:cause-expiration-only-after-deadline] c.onAtomicDeletion != nil && ghost_calls_onAtomicDeletion() != pre(ghost_calls_onAtomicDeletion()) ==> ghost_arg_onAtomicDeletion_2() == pickCause(c.withExpiration && ghost_expiresAt(n) <= nowNanos, CauseExpiration, CauseOverflow)
//@   ensures [C06:deletion-event-iff-removed] c.onDeletion != nil ==> ghost_calls_onDeletion() == pre(ghost_calls_onDeletion()) + pickInt(ghost_lpCur(c.hashmap) == n, 1, 0)
//@   ensures [C06:notification-iff-removed] ghost_calls_notifyDeletion() == pre(ghost_calls_notifyDeletion()) + pickInt(ghost_lpCur(c.hashmap) == n, 1, 0)
//@   ensures [C06:same-cause-in-both-handlers] c.onDeletion != nil && c.onAtomicDeletion != nil && ghost_lpCur(c.hashmap) == n ==> ghost_arg_onDeletion_2() == ghost_arg_onAtomicDeletion_2() && same(ghost_arg_onDeletion_1[V](), ghost_value(n))
//@   ensures [C20:eviction-counted-iff-removed] ghost_evictions() == pre(ghost_evictions()) + pickU64(ghost_lpCur(c.hashmap) == n, 1, 0) && ghost_evictionWeight() == pre(ghost_evictionWeight()) + pickU64(ghost_lpCur(c.hashmap) == n, uint64(weightOf(n)), 0)
//@   ensures [C05:evicted-node-dead-and-unscheduled] ghost_state(n) == 2 && (c.withExpiration ==> !ghost_inWheel(n)) && (c.withEviction ==> !ghost_inDeque(queueOf(c.evictionPolicy, n), n))

// ---------------------------------------------------------------------------------------------
// C19 — persistence (per-entry clauses; wire-format fidelity of encoding/gob is not modelled)
// ---------------------------------------------------------------------------------------------

//@ func LoadCacheFrom : C19 C03
//@   counted
//@   requires c != nil && c.cache != nil && cfg(c.cache) && c.cache.singleflight != nil
//@   modifies *
//@   loop 1: invariant [wiring-kept] c.cache != nil && cfg(c.cache) && c.cache.singleflight != nil
//@   site Set: requires [C19:expired-not-loaded] !c.cache.withExpiration || (ghost_clockRead() && entry.ExpiresAtNano > ghost_now())
//@   site Set: requires [C19:bound-respected] size < maximum
//@   site Set: requires [C19:loads-exactly-the-saved-entry] same(entry.Key, ghost_decoded_Key[K]()) && same(entry.Value, ghost_decoded_Value[V]()) && entry.ExpiresAtNano == ghost_decoded_ExpiresAtNano() && entry.RefreshableAtNano == ghost_decoded_RefreshableAtNano() && entry.Weight == ghost_decoded_Weight()
//@   site GetIfPresent: requires [C19:warm-up-reads-come-before-the-deadlines-are-restored] ghost_calls_SetExpiresAfter() == iter(ghost_calls_SetExpiresAfter()) && ghost_calls_SetRefreshableAfter() == iter(ghost_calls_SetRefreshableAfter())
//@   note C19: a read may move the deadline (access-based expiry) - the saved deadline must be the last thing written for an entry
//@   site SetExpiresAfter: requires [C19:deadline-restored] c.cache.withExpiration && entry.ExpiresAtNano != math.MaxInt64 && ghost_clockRead() && int64(expiresAfter) == entry.ExpiresAtNano-ghost_now() && expiresAfter > 0
//@   site SetRefreshableAfter: requires [C19:refresh-restored-or-due] c.cache.withRefresh && entry.RefreshableAtNano != math.MaxInt64 && ghost_clockRead() && (entry.RefreshableAtNano > ghost_now() ==> int64(refreshableAfter) == entry.RefreshableAtNano-ghost_now()) && (entry.RefreshableAtNano >= 0 && entry.RefreshableAtNano <= ghost_now() ==> refreshableAfter == 1)

//@ func SaveCacheToFile : C19
//@   requires c != nil && c.cache != nil && cfg(c.cache) && c.cache.singleflight != nil
//@   modifies *
//@   ensures [C19:the-save-runs-and-its-outcome-is-reported] result == nil ==> ghost_calls_SaveCacheTo() == pre(ghost_calls_SaveCacheTo()) + 1 && ghost_last_SaveCacheTo_result() == nil
//@   site SaveCacheTo: requires [C19:the-file-holds-nothing-but-this-save] ghost_fileTruncated(file)

//@ func LoadCacheFromFile : C19
//@   requires c != nil && c.cache != nil && cfg(c.cache) && c.cache.singleflight != nil
//@   modifies *
//@   ensures [C19:the-load-runs-and-its-outcome-is-reported] result == nil ==> ghost_calls_LoadCacheFrom() == pre(ghost_calls_LoadCacheFrom()) + 1 && ghost_last_LoadCacheFrom_result() == nil

//@ func SaveCacheTo : C19
//@   counted
//@   requires c != nil && c.cache != nil && cfg(c.cache) && c.cache.singleflight != nil
//@   modifies *
//@   site SaveCacheTo$1.Encode: requires [C19:only-live-entries-within-the-bound-are-saved] size < maximum && (!c.cache.withExpiration || entry.ExpiresAtNano > entry.SnapshotAtNano)
//@   site SaveCacheTo$1.return: requires [C19:the-cutoff-counts-the-weight-saved-so-far] err == nil ==> size == iter(size) + uint64(entry.Weight)

//@ func (*group).doBulkCall : C10 C08 C01 C11
//@   counted
//@   panics
//@   var kstar K
//@   requires callsInBulk != nil
//@   requires [call-map-wf] mapHas(callsInBulk, kstar) ==> callsInBulk[kstar] != nil && same(callsInBulk[kstar].key, kstar)
//@   modifies map callsInBulk, call::value, call::err, call::isNotFound, $CACHEFX, ghost_calls_bulkLoad(), ghost_calls_afterFinish(), ghost_visited(*), ghost_calls_BulkLoad(), ghost_calls_BulkReload(), ghost_calls_newPanicError()
//@   callback bulkLoad: modifies call::value, ghost_calls_BulkLoad(), ghost_calls_BulkReload()
//@   var cstar *call[K, V]
//@   callback afterFinish: requires [C08:only-registered-calls-are-finished] cb_c != nil
//@   callback afterFinish: modifies $CACHEFX0, ghost_wgDone(cb_c), ghost_released(cb_c), cb_c.wg
//@   callback afterFinish: ensures [C08:finishing-a-call-releases-its-waiters-once] ghost_wgDone(cb_c) == pre(ghost_wgDone(cb_c)) + pickInt(cb_c.isFake, 0, 1) && (!cb_c.isFake ==> ghost_released(cb_c))
//@   callback afterFinish: ensures [clock-stable] pre(ghost_clockRead()) ==> ghost_clockRead() && ghost_now() == pre(ghost_now())
//@   loop 1: invariant [keys] callsInBulk != nil
//@   loop 2: invariant [map-kept] mapHas(callsInBulk, kstar) == pre(mapHas(callsInBulk, kstar)) && callsInBulk[kstar] == pre(callsInBulk[kstar])
//@   loop 2: invariant [C10:assign-supplied] ghost_visited(kstar) && mapHas(callsInBulk, kstar) && mapHas(res, kstar) ==> same(callsInBulk[kstar].value, res[kstar])
//@   loop 2: invariant [C10:assign-unsupplied] ghost_visited(kstar) && mapHas(callsInBulk, kstar) && !mapHas(res, kstar) ==> callsInBulk[kstar].isNotFound && callsInBulk[kstar].err != nil
//@   loop 3: invariant [C08:entries-are-records] mapHas(callsInBulk, kstar) ==> callsInBulk[kstar] != nil
//@   loop 3: invariant [C10:extra-keys-become-fake-calls] pre(mapHas(callsInBulk, kstar)) ==> mapHas(callsInBulk, kstar) && callsInBulk[kstar] == pre(callsInBulk[kstar])
//@   loop 3: invariant [C10:assigned-results-kept] pre(mapHas(callsInBulk, kstar)) ==> (mapHas(res, kstar) ==> same(callsInBulk[kstar].value, res[kstar])) && (!mapHas(res, kstar) ==> callsInBulk[kstar].isNotFound && callsInBulk[kstar].err != nil)
//@   loop doBulkCall$1:1: invariant [C10:error-to-every-call] ghost_visited(kstar) && mapHas(callsInBulk, kstar) ==> callsInBulk[kstar].err == err && !callsInBulk[kstar].isNotFound
//@   loop 3: invariant [C10:volunteered-keys-are-fake] !pre(mapHas(callsInBulk, kstar)) && mapHas(callsInBulk, kstar) ==> callsInBulk[kstar].isFake
//@   loop 3: invariant [keys-kept] mapHas(callsInBulk, kstar) ==> same(callsInBulk[kstar].key, kstar)
//@   loop doBulkCall$1:1: invariant [keys-kept] mapHas(callsInBulk, kstar) ==> callsInBulk[kstar] != nil && same(callsInBulk[kstar].key, kstar)
//@   loop doBulkCall$1:2: invariant [finish] callsInBulk != nil
//@   loop doBulkCall$1:2: invariant [keys-kept] mapHas(callsInBulk, kstar) ==> callsInBulk[kstar] != nil && same(callsInBulk[kstar].key, kstar)
//@   loop doBulkCall$1:2: invariant [C08:each-call-released-once-when-its-turn-comes] mapHas(callsInBulk, kstar) ==> ghost_wgDone(callsInBulk[kstar]) == entry(ghost_wgDone(callsInBulk[kstar])) + pickInt(ghost_visited(kstar) && !callsInBulk[kstar].isFake, 1, 0)
//@   loop doBulkCall$1:2: invariant [C08:finished-calls-are-released] ghost_visited(kstar) && mapHas(callsInBulk, kstar) && !callsInBulk[kstar].isFake ==> ghost_released(callsInBulk[kstar])
//@   loop doBulkCall$1:2: invariant [C08:no-other-call-released] cstar != nil && !(mapHas(callsInBulk, cstar.key) && callsInBulk[cstar.key] == cstar) ==> ghost_wgDone(cstar) == entry(ghost_wgDone(cstar))
//@   loop doBulkCall$1:2: invariant [clock-stable] pre(ghost_clockRead()) ==> ghost_clockRead() && ghost_now() == pre(ghost_now())
//@   ensures [clock-stable] pre(ghost_clockRead()) ==> ghost_clockRead() && ghost_now() == pre(ghost_now())
//@   ensures on-panic [C20:a-bulk-loader-panic-is-returned-as-an-error-never-raised-past-the-load-accounting] false
//@   ensures [C08:every-call-of-the-bulk-is-finished-exactly-once] pre(mapHas(callsInBulk, kstar)) ==> ghost_wgDone(callsInBulk[kstar]) == pre(ghost_wgDone(callsInBulk[kstar])) + pickInt(callsInBulk[kstar].isFake, 0, 1)
//@   ensures [C08:every-call-of-the-bulk-has-its-waiters-released] pre(mapHas(callsInBulk, kstar)) && !callsInBulk[kstar].isFake ==> ghost_released(callsInBulk[kstar])
//@   ensures [C08:no-other-call-is-released] cstar != nil && !(mapHas(callsInBulk, cstar.key) && callsInBulk[cstar.key] == cstar) ==> ghost_wgDone(cstar) == pre(ghost_wgDone(cstar))
//@   ensures [C10:keys-the-loader-volunteered-become-fake-calls] !pre(mapHas(callsInBulk, kstar)) && mapHas(callsInBulk, kstar) ==> callsInBulk[kstar] != nil && callsInBulk[kstar].isFake
//@   ensures [C10:registered-calls-stay-in-the-bulk] pre(mapHas(callsInBulk, kstar)) ==> mapHas(callsInBulk, kstar) && callsInBulk[kstar] == pre(callsInBulk[kstar])
//@   ensures [C10:bulk-error-reaches-every-call] err != nil && pre(mapHas(callsInBulk, kstar)) ==> callsInBulk[kstar].err == err && !callsInBulk[kstar].isNotFound
//@   ensures [C10:bulk-supplied-value-recorded] err == nil && pre(mapHas(callsInBulk, kstar)) && mapHas(ghost_ret_bulkLoad_0[K, V](), kstar) ==> same(callsInBulk[kstar].value, ghost_ret_bulkLoad_0[K, V]()[kstar])
//@   ensures [C10:bulk-unsupplied-key-is-no-hit] err == nil && pre(mapHas(callsInBulk, kstar)) && !mapHas(ghost_ret_bulkLoad_0[K, V](), kstar) ==> callsInBulk[kstar].isNotFound && callsInBulk[kstar].err != nil
//@   own-modifies map callsInBulk, call::value, call::err, call::isNotFound, ghost_calls_bulkLoad(), ghost_visited(*), ghost_calls_newPanicError()

//@ func (*cache).refreshKey : C11 C08
//@   counted
//@   nonblocking-sends
//@   note assumes loaders do not panic on the executor path (a panicking Reload is re-raised by wrapLoad inside the executor closure; the suite pins that behaviour)
//@   requires cfg(c) && c.singleflight != nil && c.singleflight.calls != nil && c.singleflight.isInitialized.Load() && ghost_calls_load() == 0
//@   modifies $LOADFX
//@   site doCall: requires [C08:loader-only-if-shouldLoad] shouldLoad
//@   ensures [clock-stable] pre(ghost_clockRead()) ==> ghost_clockRead() && ghost_now() == pre(ghost_now())
//@   ensures [C11:nil-if-unconfigured] !c.withRefresh ==> result == nil
//@   ensures [C11:one-result-per-manual-call] c.withRefresh && isManual ==> result != nil && ghost_chanSent(result) == 1
//@   ensures [C11:automatic-refresh-returns-no-channel] c.withRefresh && !isManual ==> result == nil
//@   ensures [C08:refresh-waits-for-the-call-it-started-or-joined] c.withRefresh ==> ghost_calls_wait() == pre(ghost_calls_wait()) + 1 && ghost_last_wait_c[K, V]() == ghost_last_startCall_c[K, V]()
//@   ensures [wiring-kept] pre(wired(c)) ==> wired(c)
//@   site doCall: callback-invariant cfg(c) && c.singleflight.calls != nil && c.singleflight.isInitialized.Load()

//@ func (*cache).Get : C08 C10 C11 C20 C01 C03
//@   requires cfg(c) && c.singleflight != nil && ghost_calls_load() == 0
//@   modifies *
//@   site doCall: requires [C08:loader-only-if-shouldLoad] shouldLoad
//@   site refreshKey: requires [C11:refresh-only-on-stale-hit] n != nil && !specFresh(n, nowNano)
//@   ensures [C10:hit-returns-cached-value-without-loading] liveAt(pre(ghost_tbl(c.hashmap, key)), pre(ghost_expiresAt(ghost_tbl(c.hashmap, key))), ghost_now()) ==> same(r0, ghost_value(pre(ghost_tbl(c.hashmap, key)))) && r1 == nil
//@   ensures [C11:fresh-hit-triggers-nothing] liveAt(pre(ghost_tbl(c.hashmap, key)), pre(ghost_expiresAt(ghost_tbl(c.hashmap, key))), ghost_now()) && pre(alive(ghost_tbl(c.hashmap, key))) && (!c.withRefresh || pre(ghost_refreshableAt(ghost_tbl(c.hashmap, key))) > ghost_now()) ==> ghost_calls_refreshKey() == pre(ghost_calls_refreshKey()) && ghost_calls_doCall() == pre(ghost_calls_doCall())
//@   ensures [C11:stale-hit-serves-old-value-and-refreshes-once] liveAt(pre(ghost_tbl(c.hashmap, key)), pre(ghost_expiresAt(ghost_tbl(c.hashmap, key))), ghost_now()) && c.withRefresh && pre(ghost_refreshableAt(ghost_tbl(c.hashmap, key))) <= ghost_now() ==> ghost_calls_refreshKey() == pre(ghost_calls_refreshKey()) + 1 && same(r0, ghost_value(pre(ghost_tbl(c.hashmap, key))))
//@   ensures [C10:miss-returns-the-outcome-of-the-call] !liveAt(pre(ghost_tbl(c.hashmap, key)), pre(ghost_expiresAt(ghost_tbl(c.hashmap, key))), ghost_now()) ==> ghost_calls_startCall() == pre(ghost_calls_startCall()) + 1 && same(r0, ghost_last_startCall_c[K, V]().value) && r1 == ghost_last_startCall_c[K, V]().err
//@   ensures [C08:loads-iff-it-registered-the-call] !liveAt(pre(ghost_tbl(c.hashmap, key)), pre(ghost_expiresAt(ghost_tbl(c.hashmap, key))), ghost_now()) ==> ghost_calls_doCall() == pre(ghost_calls_doCall()) + pickInt(ghost_last_startCall_shouldLoad(), 1, 0)
//@   ensures [C08:miss-waits-for-the-call-it-started-or-joined] !liveAt(pre(ghost_tbl(c.hashmap, key)), pre(ghost_expiresAt(ghost_tbl(c.hashmap, key))), ghost_now()) ==> ghost_calls_wait() == pre(ghost_calls_wait()) + 1 && ghost_last_wait_c[K, V]() == ghost_last_startCall_c[K, V]()
//@   ensures [C20:one-lookup] ghost_hits()+ghost_misses() == pre(ghost_hits()+ghost_misses()) + 1
//@   ensures [wiring-kept] pre(wired(c)) ==> wired(c)
//@   site doCall: callback-invariant cfg(c) && c.singleflight.calls != nil && c.singleflight.isInitialized.Load()

//@ func (*cache).Refresh : C11 C20
//@   requires cfg(c) && c.singleflight != nil && ghost_calls_load() == 0
//@   modifies *
//@   ensures [C11:nil-if-unconfigured] !c.withRefresh ==> result == nil
//@   ensures [C11:one-result-per-call] c.withRefresh ==> result != nil && ghost_chanSent(result) == 1
//@   ensures [C20:quiet] ghost_hits() == pre(ghost_hits()) && ghost_misses() == pre(ghost_misses())
//@   ensures [wiring-kept] pre(wired(c)) ==> wired(c)

//@ func (*cache).BulkRefresh : C11 C20 C03
//@   requires cfg(c) && c.singleflight != nil
//@   modifies *
//@   loop 1: invariant [uniq] uniq != nil
//@   loop 2: invariant [wiring] wired(c) && c.singleflight.calls != nil && c.singleflight.isInitialized.Load()
//@   loop 2: invariant [C20:quiet] ghost_hits() == pre(ghost_hits()) && ghost_misses() == pre(ghost_misses())
//@   site getNodeQuietly: requires [C03:refresh-looks-at-the-clock-reading] nowNano == ghost_now()
//@   ensures [C11:nil-if-unconfigured] !c.withRefresh ==> result == nil
//@   ensures [C11:one-result-per-call] c.withRefresh ==> result != nil && ghost_chanSent(result) == 1
//@   ensures [wiring-kept] wired(c)

//@ func (*cache).bulkRefreshKeys : C10 C11 C08
//@   counted
//@   nonblocking-sends
//@   var kstar K
//@   var cstar *call[K, V]
//@   note assumes loaders do not panic on the executor path (as for refreshKey)
//@   requires cfg(c) && c.singleflight != nil && c.singleflight.calls != nil && c.singleflight.isInitialized.Load()
//@   modifies $LOADFX, ghost_calls_bulkLoad(), ghost_ret_bulkLoad_0(), ghost_ret_bulkLoad_1(), ghost_visited(*), ghost_calls_doBulkCall(), map *
//@   site doBulkCall: callback-invariant cfg(c) && c.singleflight.calls != nil && c.singleflight.isInitialized.Load()
//@   loop bulkRefreshKeys$1:1: invariant [wiring] wired(c)
//@   loop bulkRefreshKeys$1:1: invariant [call-maps-distinct] toLoadCalls == nil || toReloadCalls == nil || !same(toLoadCalls, toReloadCalls)
//@   loop bulkRefreshKeys$1:1: invariant [call-maps-wf] (mapHas(toLoadCalls, kstar) ==> toLoadCalls[kstar] != nil && same(toLoadCalls[kstar].key, kstar)) && (mapHas(toReloadCalls, kstar) ==> toReloadCalls[kstar] != nil && same(toReloadCalls[kstar].key, kstar))
//@   loop bulkRefreshKeys$1:1: invariant [C08:nothing-released-while-registering] ghost_wgDone(cstar) == pre(ghost_wgDone(cstar))
//@   loop bulkRefreshKeys$1:1: invariant [C08:registered-calls-are-the-records-in-the-table] (mapHas(toLoadCalls, kstar) ==> ghost_calls(c.singleflight.calls, kstar) == toLoadCalls[kstar] && !toLoadCalls[kstar].isFake) && (mapHas(toReloadCalls, kstar) ==> ghost_calls(c.singleflight.calls, kstar) == toReloadCalls[kstar] && !toReloadCalls[kstar].isFake)
//@   loop bulkRefreshKeys$1:1: invariant [C08:each-key-registered-in-one-map] !(mapHas(toLoadCalls, kstar) && mapHas(toReloadCalls, kstar))
//@   site bulkRefreshKeys$1.return: requires [C08:every-call-registered-here-is-finished-before-the-task-ends] cstar != nil && same(cstar.key, kstar) && ((mapHas(toLoadCalls, kstar) && toLoadCalls[kstar] == cstar && !cstar.isFake) || (mapHas(toReloadCalls, kstar) && toReloadCalls[kstar] == cstar && !cstar.isFake)) ==> ghost_wgDone(cstar) == pre(ghost_wgDone(cstar)) + 1
//@   loop bulkRefreshKeys$1:1: invariant [counter] i == ghost_iter()
//@   loop bulkRefreshKeys$1:1: invariant [C10:cached-keys-are-reloaded-with-their-old-value-others-are-loaded] i > 0 && ghost_last_startCall_shouldLoad() ==> (rks[i-1].old != nil ==> mapHas(toReloadCalls, rks[i-1].key) && toReloadCalls[rks[i-1].key] == ghost_last_startCall_c[K, V]() && same(toReloadCalls[rks[i-1].key].value, ghost_value(rks[i-1].old))) && (rks[i-1].old == nil ==> mapHas(toLoadCalls, rks[i-1].key) && toLoadCalls[rks[i-1].key] == ghost_last_startCall_c[K, V]())
//@   loop bulkRefreshKeys$1:2: invariant [wiring] wired(c)
//@   loop bulkRefreshKeys$1:3: invariant [wiring] wired(c)
//@   loop bulkRefreshKeys$1:4: invariant [wiring] wired(c)
//@   loop bulkRefreshKeys$1$2:1: invariant [reload-reads-the-old-values] c.withRefresh
//@   ensures [clock-stable] pre(ghost_clockRead()) ==> ghost_clockRead() && ghost_now() == pre(ghost_now())
//@   ensures [C11:nil-if-unconfigured] !c.withRefresh ==> result == nil
//@   ensures [C11:one-result-per-manual-call] c.withRefresh && isManual ==> result != nil && ghost_chanSent(result) == 1
//@   ensures [C11:automatic-refresh-returns-no-channel] c.withRefresh && !isManual ==> result == nil
//@   ensures [wiring-kept] wired(c)

//@ func (*cache).BulkGet : C10 C08 C20 C11 C01 C03
//@   var kstar K
//@   var cstar *call[K, V]
//@   var kq K
//@   var jstar int
//@   note kq stands for any key that is not among the requested ones: the hypothesis below is the case distinction of the theorem "a key that was not requested is not returned", not an assumption about the code
//@   loop 1: assume [hypothesis-kq-is-not-requested] 0 <= jstar && jstar < len(keys) ==> !same(keys[jstar], kq)
//@   loop 1: invariant [C10:unrequested-keys-are-neither-hits-nor-misses] !mapHas(result, kq) && !mapHas(misses, kq)
//@   loop 2: invariant [C10:unrequested-keys-are-neither-hits-nor-misses] !mapHas(result, kq) && !mapHas(misses, kq)
//@   loop 3: invariant [C10:unrequested-keys-are-neither-hits-nor-misses] !mapHas(result, kq) && !mapHas(misses, kq)
//@   ensures [C10:only-requested-keys-are-returned] !mapHas(r0, kq)
//@   requires cfg(c) && c.singleflight != nil && ghost_calls_load() == 0
//@   modifies *
//@   site getNode: requires [C20:each-distinct-key-looked-up-once] !mapHas(result, key) && !mapHas(misses, key)
//@   site doBulkCall: requires [C10:loader-only-for-missing-keys] len(toLoadCalls) > 0 && (mapHas(toLoadCalls, kstar) ==> mapHas(misses, kstar) && !mapHas(result, kstar))
//@   loop 1: invariant [result-map] result != nil
//@   loop 1: invariant [wiring] wired(c)
//@   loop 2: invariant [wiring] wired(c)
//@   loop 3: invariant [wiring] wired(c)
//@   loop 1: invariant [C10:hits-and-misses-disjoint] !(mapHas(result, kstar) && mapHas(misses, kstar))
//@   loop 1: invariant [C10:no-load-while-looking-up] ghost_calls_doBulkCall() == pre(ghost_calls_doBulkCall())
//@   loop 2: invariant [C10:calls-only-for-misses] result != nil && !(mapHas(result, kstar) && mapHas(misses, kstar)) && (mapHas(toLoadCalls, kstar) ==> mapHas(misses, kstar))
//@   loop 2: invariant [C10:no-load-while-registering-calls] ghost_calls_doBulkCall() == entry(ghost_calls_doBulkCall())
//@   loop 2: invariant [call-map-wf] !same(toLoadCalls, misses) && (mapHas(toLoadCalls, kstar) ==> toLoadCalls[kstar] != nil && same(toLoadCalls[kstar].key, kstar))
//@   loop 2: invariant [C08:registered-calls-are-real] mapHas(toLoadCalls, kstar) ==> !toLoadCalls[kstar].isFake
//@   site BulkGet.return: requires [C08:every-call-registered-here-is-finished-on-every-return] cstar != nil && same(cstar.key, kstar) && mapHas(toLoadCalls, kstar) && toLoadCalls[kstar] == cstar && !cstar.isFake ==> ghost_released(cstar)
//@   loop 2: invariant [misses-get-their-call] ghost_visited(kstar) && mapHas(misses, kstar) ==> misses[kstar] != nil
//@   loop 3: invariant [C08:results-come-only-from-calls-that-were-waited-for] mapHas(result, kstar) && mapHas(misses, kstar) ==> ghost_waited(misses[kstar])
//@   loop 3: invariant [C10:failed-or-unsupplied-keys-stay-absent] result != nil && (mapHas(misses, kstar) ==> misses[kstar] != nil) && (mapHas(result, kstar) && mapHas(misses, kstar) ==> misses[kstar].err == nil)
//@   loop 3: invariant [C10:no-load-while-collecting-results] ghost_calls_doBulkCall() == entry(ghost_calls_doBulkCall())
//@   note loader-at-most-once-per-call: the bulk loader is reached through the single call of doBulkCall, which is in no loop; the three loop invariants above say that no iteration loads
//@   ensures [C10:result-map-returned] r0 != nil
//@   ensures [C11:stale-hits-are-handed-to-the-refresher-on-every-return] ghost_calls_bulkRefreshKeys() == pre(ghost_calls_bulkRefreshKeys()) + 1
//@   site bulkRefreshKeys: requires [C11:refresh-before-any-load-can-fail] ghost_calls_doBulkCall() == pre(ghost_calls_doBulkCall())
//@   site doBulkCall: callback-invariant cfg(c) && c.singleflight.calls != nil && c.singleflight.isInitialized.Load()

//@   ensures [wiring-kept] pre(wired(c)) ==> wired(c)

// ---------------------------------------------------------------------------------------------
// Public wrappers (cache.go): every method of Cache is exactly one call of the method of the same name of the
// implementation, on c.cache, with the arguments passed through in order and the results returned unchanged. The
// preconditions and postconditions of the implementation are thereby those of the public method.
// ---------------------------------------------------------------------------------------------

//@ func (*Cache).GetIfPresent : C01 C03 C20
//@   modifies *
//@   delegates (*cache).GetIfPresent on c.cache

// has (used by the extension hooks): present exactly when a lookup finds a live entry
//@ func (*cache).has : C01 C03
//@   requires cfg(c)
//@   modifies *
//@   ensures [C03:has-iff-live] result == liveAt(pre(ghost_tbl(c.hashmap, key)), pre(ghost_expiresAt(ghost_tbl(c.hashmap, key))), ghost_now())
//@   ensures [wiring-kept] pre(wired(c)) ==> wired(c)

//@ func (*Cache).has : C01 C03
//@   modifies *
//@   delegates (*cache).has on c.cache

//@ func (*Cache).InvalidateAll : C01 C03 C05 C06
//@   modifies *
//@   delegates (*cache).InvalidateAll on c.cache

//@ func (*Cache).GetEntry : C01 C03 C20
//@   modifies *
//@   delegates (*cache).GetEntry on c.cache

//@ func (*Cache).GetEntryQuietly : C01 C03 C20
//@   modifies *
//@   delegates (*cache).GetEntryQuietly on c.cache

//@ func (*Cache).Set : C01 C03 C06 C09
//@   modifies *
//@   delegates (*cache).Set on c.cache

//@ func (*Cache).SetIfAbsent : C01 C03 C06 C09
//@   modifies *
//@   delegates (*cache).SetIfAbsent on c.cache

//@ func (*Cache).Compute : C01 C03 C06 C09 C20
//@   modifies *
//@   delegates (*cache).Compute on c.cache

//@ func (*Cache).ComputeIfAbsent : C01 C03 C20
//@   modifies *
//@   delegates (*cache).ComputeIfAbsent on c.cache

//@ func (*Cache).ComputeIfPresent : C01 C03 C20
//@   modifies *
//@   delegates (*cache).ComputeIfPresent on c.cache

//@ func (*Cache).SetExpiresAfter : C12 C03 C01 C20 C07
//@   modifies *
//@   delegates (*cache).SetExpiresAfter on c.cache

//@ func (*Cache).SetRefreshableAfter : C12 C03 C01 C20
//@   modifies *
//@   delegates (*cache).SetRefreshableAfter on c.cache

//@ func (*Cache).Get : C08 C10 C11 C20 C01 C03
//@   modifies *
//@   delegates (*cache).Get on c.cache

//@ func (*Cache).BulkGet : C10 C08 C20 C11 C01 C03
//@   modifies *
//@   delegates (*cache).BulkGet on c.cache

//@ func (*Cache).Refresh : C11 C20
//@   modifies *
//@   delegates (*cache).Refresh on c.cache

//@ func (*Cache).BulkRefresh : C11 C20 C03
//@   modifies *
//@   delegates (*cache).BulkRefresh on c.cache

//@ func (*Cache).Invalidate : C01 C03 C06 C09 C20 C05 C13 C07 C04
//@   modifies *
//@   delegates (*cache).Invalidate on c.cache

//@ func (*Cache).All : C01 C03
//@   modifies *
//@   delegates (*cache).All on c.cache

//@ func (*Cache).Keys : C01 C03
//@   modifies *
//@   delegates (*cache).Keys on c.cache

//@ func (*Cache).Values : C01 C03
//@   modifies *
//@   delegates (*cache).Values on c.cache

//@ func (*Cache).CleanUp : C13 C04 C05
//@   modifies *
//@   delegates (*cache).CleanUp on c.cache

//@ func (*Cache).SetMaximum : C04 C07
//@   modifies *
//@   delegates (*cache).SetMaximum on c.cache

//@ func (*Cache).GetMaximum : C04
//@   modifies *
//@   delegates (*cache).GetMaximum on c.cache

//@ func (*Cache).WeightedSize : C05
//@   modifies *
//@   delegates (*cache).WeightedSize on c.cache

// ---------------------------------------------------------------------------------------------
// Remaining public methods of the implementation
// ---------------------------------------------------------------------------------------------

//@ func (*cache).Hottest : C01 C03 C19 C05
//@   modifies *
//@   delegates (*cache).evictionOrder on c args true

//@ func (*cache).Coldest : C01 C03 C05
//@   modifies *
//@   delegates (*cache).evictionOrder on c args false

//@ func (*cache).IsWeighted : C04 C05
//@   ensures [C05:reports-the-configuration] result == c.isWeighted

//@ func (*cache).IsRecordingStats : C20
//@   ensures [C20:reports-the-configuration] result == c.withStats

//@ func (*Cache).Hottest : C01 C03 C19 C05
//@   modifies *
//@   delegates (*cache).Hottest on c.cache

//@ func (*Cache).Coldest : C01 C03 C05
//@   modifies *
//@   delegates (*cache).Coldest on c.cache

//@ func (*Cache).IsWeighted : C04 C05
//@   modifies *
//@   delegates (*cache).IsWeighted on c.cache

//@ func (*Cache).IsRecordingStats : C20
//@   modifies *
//@   delegates (*cache).IsRecordingStats on c.cache

// ---------------------------------------------------------------------------------------------
// Calculator constructors (C12): the policy each constructor names, stated behaviourally
// ---------------------------------------------------------------------------------------------

func asExpiryCreating[K comparable, V any](c ExpiryCalculator[K, V]) *varExpiryCreating[K, V] {
	w, _ := c.(*varExpiryCreating[K, V])
	return w
}

func asExpiryWriting[K comparable, V any](c ExpiryCalculator[K, V]) *varExpiryWriting[K, V] {
	w, _ := c.(*varExpiryWriting[K, V])
	return w
}

func asExpiryAccessing[K comparable, V any](c ExpiryCalculator[K, V]) *varExpiryAccessing[K, V] {
	w, _ := c.(*varExpiryAccessing[K, V])
	return w
}

func asRefreshCreating[K comparable, V any](c RefreshCalculator[K, V]) *varRefreshCreating[K, V] {
	w, _ := c.(*varRefreshCreating[K, V])
	return w
}

func asRefreshWriting[K comparable, V any](c RefreshCalculator[K, V]) *varRefreshWriting[K, V] {
	w, _ := c.(*varRefreshWriting[K, V])
	return w
}

//@ func ExpiryCreating : C12
//@   var estar Entry[K, V]
//@   var vstar V
//@   ensures [C12:creation-only-policy] result != nil && result.ExpireAfterCreate(estar) == duration && result.ExpireAfterUpdate(estar, vstar) == estar.ExpiresAfter() && result.ExpireAfterRead(estar) == estar.ExpiresAfter()

//@ func ExpiryWriting : C12
//@   var estar Entry[K, V]
//@   var vstar V
//@   ensures [C12:write-reset-policy] result != nil && result.ExpireAfterCreate(estar) == duration && result.ExpireAfterUpdate(estar, vstar) == duration && result.ExpireAfterRead(estar) == estar.ExpiresAfter()

//@ func ExpiryAccessing : C12
//@   var estar Entry[K, V]
//@   var vstar V
//@   ensures [C12:access-reset-policy] result != nil && result.ExpireAfterCreate(estar) == duration && result.ExpireAfterUpdate(estar, vstar) == duration && result.ExpireAfterRead(estar) == duration

//@ func ExpiryCreatingFunc : C12
//@   inline verified on its own; the fixed-duration constructor executes it
//@   ensures [C12:creation-only-policy-with-the-given-function] asExpiryCreating(result) != nil && same(asExpiryCreating(result).f, f)

//@ func ExpiryWritingFunc : C12
//@   inline verified on its own; the fixed-duration constructor executes it
//@   ensures [C12:write-reset-policy-with-the-given-function] asExpiryWriting(result) != nil && same(asExpiryWriting(result).f, f)

//@ func ExpiryAccessingFunc : C12
//@   inline verified on its own; the fixed-duration constructor executes it
//@   ensures [C12:access-reset-policy-with-the-given-function] asExpiryAccessing(result) != nil && same(asExpiryAccessing(result).f, f)

//@ func RefreshCreating : C12 C11
//@   var estar Entry[K, V]
//@   var vstar V
//@   var errstar error
//@   ensures [C12:refresh-creation-only-policy] result != nil && result.RefreshAfterCreate(estar) == duration && result.RefreshAfterUpdate(estar, vstar) == estar.RefreshableAfter() && result.RefreshAfterReload(estar, vstar) == estar.RefreshableAfter() && result.RefreshAfterReloadFailure(estar, errstar) == estar.RefreshableAfter()

//@ func RefreshWriting : C12 C11
//@   var estar Entry[K, V]
//@   var vstar V
//@   var errstar error
//@   ensures [C12:refresh-write-reset-policy] result != nil && result.RefreshAfterCreate(estar) == duration && result.RefreshAfterUpdate(estar, vstar) == duration && result.RefreshAfterReload(estar, vstar) == duration && result.RefreshAfterReloadFailure(estar, errstar) == estar.RefreshableAfter()

//@ func RefreshCreatingFunc : C12 C11
//@   inline verified on its own; the fixed-duration constructor executes it
//@   ensures [C12:refresh-creation-only-policy-with-the-given-function] asRefreshCreating(result) != nil && same(asRefreshCreating(result).f, f)

//@ func RefreshWritingFunc : C12 C11
//@   inline verified on its own; the fixed-duration constructor executes it
//@   ensures [C12:refresh-write-reset-policy-with-the-given-function] asRefreshWriting(result) != nil && same(asRefreshWriting(result).f, f)

// ---------------------------------------------------------------------------------------------
// Adaptors: loader function types, the time source wrapped around a user clock
// ---------------------------------------------------------------------------------------------

func ghost_calls_lf() int                  { panic("ghost") }
func ghost_ret_lf_0[V any]() V             { panic("ghost") }
func ghost_ret_lf_1() error                { panic("ghost") }
func ghost_calls_blf() int                 { panic("ghost") }
func ghost_ret_blf_0[K comparable, V any]() map[K]V { panic("ghost") }
func ghost_ret_blf_1() error               { panic("ghost") }

func asCustomSource(t timeSource) *customSource {
	c, _ := t.(*customSource)
	return c
}

func ghost_arg_lf_0() context.Context      { panic("ghost") }
func ghost_arg_lf_1[K comparable]() K      { panic("ghost") }
func ghost_arg_blf_0() context.Context     { panic("ghost") }
func ghost_arg_blf_1[K comparable]() []K   { panic("ghost") }

func asFakeSource(t Clock) *fakeSource {
	c, _ := t.(*fakeSource)
	return c
}

func asRealSource(t Clock) *realSource {
	c, _ := t.(*realSource)
	return c
}

//@ func LoaderFunc.Load : C08 C10
//@   modifies ghost_calls_lf(), ghost_ret_lf_0(), ghost_ret_lf_1(), ghost_arg_lf_0(), ghost_arg_lf_1()
//@   ensures [C10:the-function-is-the-loader] ghost_calls_lf() == pre(ghost_calls_lf()) + 1 && same(r0, ghost_ret_lf_0[V]()) && r1 == ghost_ret_lf_1() && same(ghost_arg_lf_1[K](), key)

//@ func LoaderFunc.Reload : C08 C10 C11
//@   modifies ghost_calls_lf(), ghost_ret_lf_0(), ghost_ret_lf_1(), ghost_arg_lf_0(), ghost_arg_lf_1()
//@   ensures [C10:the-function-is-the-reloader] ghost_calls_lf() == pre(ghost_calls_lf()) + 1 && same(r0, ghost_ret_lf_0[V]()) && r1 == ghost_ret_lf_1() && same(ghost_arg_lf_1[K](), key)

//@ func BulkLoaderFunc.BulkLoad : C08 C10
//@   modifies ghost_calls_blf(), ghost_ret_blf_0(), ghost_ret_blf_1(), ghost_arg_blf_0(), ghost_arg_blf_1()
//@   ensures [C10:the-function-is-the-bulk-loader] ghost_calls_blf() == pre(ghost_calls_blf()) + 1 && same(r0, ghost_ret_blf_0[K, V]()) && r1 == ghost_ret_blf_1() && same(ghost_arg_blf_1[K](), keys)

//@ func BulkLoaderFunc.BulkReload : C08 C10 C11
//@   modifies ghost_calls_blf(), ghost_ret_blf_0(), ghost_ret_blf_1(), ghost_arg_blf_0(), ghost_arg_blf_1()
//@   ensures [C10:the-function-is-the-bulk-reloader] ghost_calls_blf() == pre(ghost_calls_blf()) + 1 && same(r0, ghost_ret_blf_0[K, V]()) && r1 == ghost_ret_blf_1() && same(ghost_arg_blf_1[K](), keys)

//@ func (*customSource).NowNano : C12 C13 C03
//@   note the reading of the user's clock is the ghost ghost_now(); ghost_clockRead() records that the clock was consulted
//@   modifies ghost_now(), ghost_clockRead()
//@   ensures [C12:a-user-clock-is-read-through] cs.isInitialized.Load() ==> result == ghost_now() && ghost_clockRead()
//@   ensures [C12:an-uninitialised-clock-reads-zero] !cs.isInitialized.Load() ==> result == 0 && ghost_clockRead() == pre(ghost_clockRead())

//@ func (*customSource).Init : C12 C13
//@   modifies cs.isInitialized
//@   ensures [C12:initialised] cs.isInitialized.Load()

//@ func newTimeSource : C12 C13 C03
//@   ensures [C12:no-clock-means-the-real-one] clock == nil ==> asRealSource(result) != nil
//@   ensures [C12:a-user-clock-is-wrapped-unchanged] clock != nil && asRealSource(clock) == nil && asFakeSource(clock) == nil ==> asCustomSource(result) != nil && asCustomSource(result).clock == clock && !asCustomSource(result).isInitialized.Load()

// removal causes: an eviction is exactly a removal for size or for expiration
//@ func DeletionCause.IsEviction : C06 C07
//@   ensures [C07:eviction-causes] (dc == CauseOverflow || dc == CauseExpiration) ==> result
//@   ensures [C07:explicit-removals-are-no-evictions] (dc == CauseInvalidation || dc == CauseReplacement) ==> !result

//@ func DeletionEvent.WasEvicted : C06 C07
//@   ensures [C07:event-eviction-causes] (de.Cause == CauseOverflow || de.Cause == CauseExpiration) ==> result
//@   ensures [C07:event-explicit-removals-are-no-evictions] (de.Cause == CauseInvalidation || de.Cause == CauseReplacement) ==> !result

// ---------------------------------------------------------------------------------------------
// Construction: how the options become the configuration that every other contract assumes (cfg / wired)
// ---------------------------------------------------------------------------------------------

// validOptions: exactly what Options.validate accepts.
func validOptions[K comparable, V any](o *Options[K, V]) bool {
	return !(o.MaximumSize > 0 && o.MaximumWeight > 0) && !(o.MaximumSize > 0 && o.Weigher != nil) &&
		!(o.MaximumWeight > 0 && o.Weigher == nil) && !(o.Weigher != nil && o.MaximumWeight == 0) &&
		o.MaximumSize >= 0 && o.InitialCapacity >= 0
}

func asNoopRecorder(r stats.Recorder) *stats.NoopRecorder {
	c, _ := r.(*stats.NoopRecorder)
	return c
}

//@ func (*Options).validate : C01 C04
//@   ensures [C01:accepts-exactly-the-valid-options] (result == nil) == validOptions(o)

// newCache is the base case of the induction behind every other contract: it establishes cfg(c) (the feature flags of
// the cache agree with the node variant in use, and the structures the configuration asks for exist and are
// well-formed) from options that validate accepted.
//@ func (*Options).getExecutor : C01
//@   ensures [configured-executor] o.Executor != nil ==> same(result, o.Executor)

//@ func (*Options).getWeigher : C04
//@   ensures [C04:configured-weigher] o.Weigher != nil ==> same(result, o.Weigher)
//@   ensures [a-weigher-exists] result != nil

//@ func (*Options).getLogger : C01
//@   ensures [a-logger-exists] result != nil

//@ func (*Options).getInitialCapacity : C01
//@   ensures [configured-capacity] result == pickInt(o.InitialCapacity > 0, o.InitialCapacity, defaultInitialCapacity)

//@ func newCache : C01 C03 C04 C05 C06 C12 C13 C20
//@   var kstar K
//@   var arg0 node.Config
//@   site NewManager: assume [A-dispatch] node.SpecFlagsOf(arg0)
//@   requires o != nil && validOptions(o) && o.MaximumWeight <= 1<<62 && o.MaximumSize <= 1<<62
//@   modifies *
//@   ensures [C01:construction-establishes-the-configuration] result != nil && cfg(result)
//@   ensures [C01:features-follow-the-options] result.withExpiration == (o.ExpiryCalculator != nil) && result.withRefresh == (o.RefreshCalculator != nil) && result.isWeighted == (o.MaximumWeight > 0) && result.withEviction == (o.MaximumSize > 0 || o.MaximumWeight > 0)
//@   ensures [C12:calculators-are-the-configured-ones] result.expiryCalculator == o.ExpiryCalculator && result.refreshCalculator == o.RefreshCalculator
//@   ensures [C06:handlers-are-the-configured-ones] same(result.onDeletion, o.OnDeletion) && same(result.onAtomicDeletion, o.OnAtomicDeletion)
//@   ensures [C04:configured-maximum-in-force] result.withEviction ==> result.evictionPolicy.maximum == pickU64(o.MaximumSize > 0, uint64(o.MaximumSize), o.MaximumWeight) && result.evictionPolicy.isWeighted == (o.MaximumWeight > 0)
//@   ensures [C04:weigher-is-the-configured-one] o.Weigher != nil ==> same(result.weigher, o.Weigher)
//@   ensures [C20:recording-iff-a-real-recorder] result.withStats == (o.StatsRecorder != nil && asNoopRecorder(o.StatsRecorder) == nil) && (result.withStats ==> result.stats == o.StatsRecorder)
//@   ensures [C01:starts-empty] ghost_tbl(result.hashmap, kstar) == nil

// New: options that validate refuses yield an error and no cache; everything else yields a cache that satisfies the
// configuration invariant every operation's contract assumes. (The 2^62 bound on the maximum is a requirement on the
// options: the policy's window arithmetic is proved for maxima up to it.)
//@ func New : C01 C04
//@   requires o == nil || (o.MaximumWeight <= 1<<62 && o.MaximumSize <= 1<<62)
//@   modifies *
//@   ensures [C01:invalid-options-are-refused] o != nil && !pre(validOptions(o)) ==> r0 == nil && r1 != nil
//@   ensures [C01:valid-options-yield-a-well-formed-cache] (o == nil || pre(validOptions(o))) ==> r1 == nil && r0 != nil && r0.cache != nil && cfg(r0.cache)

//@ func (*Options).getMaximum : C04 C07
//@   ensures [C04:maximum-from-options] result == pickU64(o.MaximumSize > 0, uint64(o.MaximumSize), pickU64(o.MaximumWeight > 0, o.MaximumWeight, 0))


// ---------------------------------------------------------------------------------------------
// InvalidateAll: pending write events are applied first, then every entry is discarded as an invalidation, under the
// eviction lock while the write buffer has room and one by one afterwards
// ---------------------------------------------------------------------------------------------

func ghost_last_afterDelete_alreadyLocked() bool               { panic("ghost") }
func ghost_last_afterDelete_nowNano() int64                    { panic("ghost") }
func ghost_calls_TryPop() int                                  { panic("ghost") }
func ghost_last_TryPop_result[K comparable, V any]() *task[K, V] { panic("ghost") }

func ghost_calls_deleteNode() int { panic("ghost") }
func ghost_calls_SetExpiresAfter() int { panic("ghost") }
func ghost_calls_SetRefreshableAfter() int { panic("ghost") }

//@ func (*cache).deleteNode : C05 C06 C01 C03
//@   counted
//@   var arg0 *cache[K, V]
//@   var arg1 node.Node[K, V]
//@   var arg2 int64
//@   var arg3 DeletionCause
//@   requires [configured] cfg(c) && c.singleflight != nil
//@   requires [node-exists] n != nil
//@   modifies $CACHEFX0, ghost_calls_deleteNode()
//@   calls-only (*cache).deleteNodeFromMap, (*cache).afterDelete
//@   site deleteNodeFromMap: requires [C06:a-discarded-entry-is-removed-as-an-invalidation] arg0 == c && arg1 == n && arg2 == nowNano && arg3 == CauseInvalidation
//@   site afterDelete: requires [C06:the-policies-are-told-about-the-node-that-was-actually-removed] arg0 == c && arg1 == pickNode(ghost_lpCur(c.hashmap) == n, n, nil) && arg2 == nowNano
//@   ensures [C05:the-policies-are-told-under-the-lock-about-exactly-the-removed-node] ghost_calls_afterDelete() == pre(ghost_calls_afterDelete()) + 1 && ghost_last_afterDelete_alreadyLocked() && ghost_last_afterDelete_nowNano() == nowNano && (ghost_last_afterDelete_deleted[K, V]() == nil || ghost_last_afterDelete_deleted[K, V]() == n)
//@   ensures [wiring-kept] pre(wired(c)) ==> wired(c)

//@ func (*cache).InvalidateAll : C01 C03 C05 C06
//@   var jstar int
//@   requires cfg(c) && c.singleflight != nil
//@   modifies *
//@   site DrainTo: callback-invariant cfg(c) && c.singleflight != nil
//@   site TryPop: assume [A-buffer] t == nil || (taskWf(t) && ghost_buffered(t))
//@   loop 1: invariant [wiring] cfg(c) && c.singleflight != nil && ghost_calls_deleteNode() == pre(ghost_calls_deleteNode())
//@   loop InvalidateAll$2:0: invariant [wiring] cfg(c) && c.singleflight != nil
//@   loop InvalidateAll$2:0: invariant [collected-nodes-exist] 0 <= jstar && jstar < len(nodes) ==> nodes[jstar] != nil
//@   loop 2: invariant [wiring] cfg(c) && c.singleflight != nil
//@   loop 2: invariant [collected-nodes-exist] 0 <= jstar && jstar < len(nodes) ==> nodes[jstar] != nil
//@   loop 3: invariant [wiring] cfg(c) && c.singleflight != nil
//@   site runTask: requires [C05:pending-write-events-are-applied-before-any-entry-is-discarded] ghost_calls_deleteNode() == pre(ghost_calls_deleteNode())
//@   ensures [wiring-kept] wired(c)
