//go:build verif

package otter

import (
	"math"
	"time"

	"github.com/maypok86/otter/v2/internal/generated/node"
	"github.com/maypok86/otter/v2/internal/hashmap"
)

// ---------------------------------------------------------------------------------------------
// Specification vocabulary (compiled only under the verif tag; nothing in a normal build can call it)
// ---------------------------------------------------------------------------------------------

func implies(a, b bool) bool  { return !a || b }
func same[T any](a, b T) bool { panic("spec") }
func iff(a, b bool) bool      { return a == b }

// abstract node fields (shared with internal/generated/node/verif_contracts.go)
func ghost_key[K comparable, V any](n node.Node[K, V]) K               { panic("ghost") }
func ghost_value[K comparable, V any](n node.Node[K, V]) V             { panic("ghost") }
func ghost_expiresAt[K comparable, V any](n node.Node[K, V]) int64     { panic("ghost") }
func ghost_refreshableAt[K comparable, V any](n node.Node[K, V]) int64 { panic("ghost") }
func ghost_weight[K comparable, V any](n node.Node[K, V]) uint32       { panic("ghost") }
func ghost_state[K comparable, V any](n node.Node[K, V]) uint32        { panic("ghost") }
func ghost_queueType[K comparable, V any](n node.Node[K, V]) uint8     { panic("ghost") }
func ghost_hasExp() bool                                               { panic("ghost") }
func ghost_hasRefresh() bool                                           { panic("ghost") }
func ghost_hasWeight() bool                                            { panic("ghost") }
func ghost_hasSize() bool                                              { panic("ghost") }
func ghost_hasState() bool                                             { panic("ghost") }
func ghost_hasExpLinks() bool                                          { panic("ghost") }

// the abstract table: ghost_tbl(m, k) is the entry stored under k (nil when absent)
func ghost_tbl[K comparable, V any](m *hashmap.Map[K, V, node.Node[K, V]], k K) node.Node[K, V] {
	panic("ghost")
}

// last clock reading
func ghost_now() int64 { panic("ghost") }

// statistics log (shared with stats/verif_contracts.go)
func ghost_hits() uint64           { panic("ghost") }
func ghost_misses() uint64         { panic("ghost") }
func ghost_evictions() uint64      { panic("ghost") }
func ghost_evictionWeight() uint64 { panic("ghost") }
func ghost_loadSuccess() uint64    { panic("ghost") }
func ghost_loadFailure() uint64    { panic("ghost") }

// user-callback log: number of invocations and last result
func ghost_calls_ExpireAfterRead() int                { panic("ghost") }
func ghost_ret_ExpireAfterRead() time.Duration        { panic("ghost") }
func ghost_calls_ExpireAfterCreate() int              { panic("ghost") }
func ghost_ret_ExpireAfterCreate() time.Duration      { panic("ghost") }
func ghost_calls_ExpireAfterUpdate() int              { panic("ghost") }
func ghost_ret_ExpireAfterUpdate() time.Duration      { panic("ghost") }
func ghost_calls_RefreshAfterCreate() int             { panic("ghost") }
func ghost_ret_RefreshAfterCreate() time.Duration     { panic("ghost") }
func ghost_calls_RefreshAfterUpdate() int             { panic("ghost") }
func ghost_ret_RefreshAfterUpdate() time.Duration     { panic("ghost") }
func ghost_calls_RefreshAfterReload() int             { panic("ghost") }
func ghost_ret_RefreshAfterReload() time.Duration     { panic("ghost") }
func ghost_calls_RefreshAfterReloadFailure() int      { panic("ghost") }
func ghost_ret_RefreshAfterReloadFailure() time.Duration { panic("ghost") }
func ghost_calls_weigher() int                        { panic("ghost") }
func ghost_ret_weigher() uint32                       { panic("ghost") }
func ghost_calls_rand() int                           { panic("ghost") }
func ghost_ret_rand() uint32                          { panic("ghost") }
func ghost_calls_f() int                              { panic("ghost") }
func ghost_ret_f() time.Duration                      { panic("ghost") }

// cfg links the configuration flags of the cache to the node variant in use (one variant per cache).
func cfg[K comparable, V any](c *cache[K, V]) bool {
	return ghost_hasExp() == c.withExpiration && ghost_hasRefresh() == c.withRefresh && ghost_hasWeight() == c.isWeighted &&
		ghost_hasSize() == c.withEviction && ghost_hasState() == c.withMaintenance && ghost_hasExpLinks() == c.withExpiration &&
		c.withMaintenance == (c.withEviction || c.withExpiration) && c.withTime == (c.withExpiration || c.withRefresh)
}

// live: the entry exists and its deadline has not been reached.
func live[K comparable, V any](n node.Node[K, V], now int64) bool {
	return n != nil && !(ghost_hasExp() && ghost_expiresAt(n) <= now)
}

// satadd is the mathematical min(a+b, MaxInt64) for non-negative a, b.
func satadd(a, b int64) int64 {
	if a > math.MaxInt64-b {
		return math.MaxInt64
	}
	return a + b
}

func pickU64(c bool, a, b uint64) uint64 {
	if c {
		return a
	}
	return b
}

func pickI64(c bool, a, b int64) int64 {
	if c {
		return a
	}
	return b
}

func weightOf[K comparable, V any](n node.Node[K, V]) uint32 {
	if ghost_hasWeight() {
		return ghost_weight(n)
	}
	return 1
}

func alive[K comparable, V any](n node.Node[K, V]) bool {
	return !ghost_hasState() || ghost_state(n) == 0
}

// reloadCase: the write installs the result of a reload of an existing entry.
func reloadCase[K comparable, V any](old node.Node[K, V], cl *call[K, V]) bool {
	return cl != nil && cl.isRefresh && old != nil
}

// refreshDur is the duration returned by the refresh hook that the property prescribes for this write.
func refreshDur[K comparable, V any](old node.Node[K, V], cl *call[K, V], now int64) time.Duration {
	if reloadCase(old, cl) {
		if cl.err != nil {
			return ghost_ret_RefreshAfterReloadFailure()
		}
		return ghost_ret_RefreshAfterReload()
	}
	if live(old, now) {
		return ghost_ret_RefreshAfterUpdate()
	}
	return ghost_ret_RefreshAfterCreate()
}

func pick(c bool, a, b time.Duration) time.Duration {
	if c {
		return a
	}
	return b
}

// ---- frequency sketch (C18)

func nib(w, j uint64) uint64                 { return (w >> (j << 2)) & 0xf }
func ctrSlot(block, ch, i uint64) uint64     { return block + ((ch >> (i << 3)) & 1) + (i << 1) }
func ctrIdx(ch, i uint64) uint64             { return ((ch >> (i << 3)) >> 1) & 15 }
func isPow2(x uint64) bool                   { return x != 0 && x&(x-1) == 0 }
func minU64(a, b uint64) uint64 {
	if a < b {
		return a
	}
	return b
}

// wfSketch: the table length is a power of two >= 8 and blockMask selects a whole 8-word block.
func wfSketch[K comparable](s *sketch[K]) bool {
	n := uint64(len(s.table))
	return isPow2(n) && n >= 8 && s.blockMask == (n>>3)-1
}

// est is the popularity estimate of block hash bh: the minimum of its four 4-bit counters.
func est[K comparable](s *sketch[K], bh uint64) uint64 {
	ch := rehash(bh)
	block := (bh & s.blockMask) << 3
	f := uint64(15)
	for i := uint64(0); i < 4; i++ {
		f = minU64(f, nib(s.table[ctrSlot(block, ch, i)], ctrIdx(ch, i)))
	}
	return f
}

// estOf is what frequency must return for key k.
func estOf[K comparable](s *sketch[K], k K) uint64 {
	if s.isNotInitialized() {
		return 0
	}
	return est(s, s.hash(k))
}

//@ fieldinv ghost_expiresAt: v >= 0
//@ fieldinv ghost_refreshableAt: v >= 0

//@ macro MAINT = node::state, node::queueType, node::prev, node::next, node::prevExp, node::nextExp, ghost_tbl(*), policy::*, Variable::*, Linked::*, sketch::*, cache::drainStatus, cache::evictionMutex, task::*

// ---------------------------------------------------------------------------------------------
// Clock
// ---------------------------------------------------------------------------------------------

//@ iface Clock.NowNano : C12 C03 C01
//@   assumed A-clock: readings are non-negative unix nanoseconds
//@   modifies ghost_now()
//@   ensures [clock-nonneg] result >= 0 && result == ghost_now()

// ---------------------------------------------------------------------------------------------
// Maintenance entry points (footprints; the bodies are verified in the C04/C05/C06 blocks below)
// ---------------------------------------------------------------------------------------------

//@ macro EVLOG = ghost_evictions(), ghost_evictionWeight()

//@ func (*cache).scheduleDrainBuffers : C01 C03 C12 C20
//@   assumed footprint of a maintenance run triggered through the executor (C14 is not applicable)
//@   modifies $MAINT, $EVLOG

//@ func (*cache).afterRead : C01 C03 C12 C20
//@   requires cfg(c) && nowNano >= 0 && got != nil
//@   requires [C03:deadline-only-live] calcExpiresAt && c.withExpiration ==> live(got, nowNano)
//@   modifies $MAINT, $EVLOG, got.expiresAt, ghost_calls_ExpireAfterRead(), ghost_ret_ExpireAfterRead(), ghost_hits()
//@   ensures [C20:hit-recorded-iff-asked] ghost_hits() == pre(ghost_hits()) + pickU64(recordHit, 1, 0)
//@   ensures [C12:read-hook-once] calcExpiresAt && c.withExpiration ==> ghost_calls_ExpireAfterRead() == pre(ghost_calls_ExpireAfterRead()) + 1
//@   ensures [C12:read-deadline] calcExpiresAt && c.withExpiration && ghost_ret_ExpireAfterRead() > 0 ==> ghost_expiresAt(got) == satadd(nowNano, int64(ghost_ret_ExpireAfterRead()))
//@   ensures [C12:read-keep] !calcExpiresAt || !c.withExpiration || ghost_ret_ExpireAfterRead() <= 0 ==> ghost_expiresAt(got) == pre(ghost_expiresAt(got))
//@   ensures [C12:no-hook-unless-asked] !calcExpiresAt || !c.withExpiration ==> ghost_calls_ExpireAfterRead() == pre(ghost_calls_ExpireAfterRead()) && ghost_ret_ExpireAfterRead() == pre(ghost_ret_ExpireAfterRead())

//@ func (*cache).getNodeQuietly : C01 C03 C11 C12 C20
//@   requires cfg(c)
//@   ensures [C03:quiet-live-only] result != nil ==> live(result, nowNano) && alive(result) && result == ghost_tbl(c.hashmap, key) && same(ghost_key(result), key)
//@   ensures [C01:quiet-finds] live(ghost_tbl(c.hashmap, key), nowNano) && alive(ghost_tbl(c.hashmap, key)) ==> result == ghost_tbl(c.hashmap, key)

// ---------------------------------------------------------------------------------------------
// C12 — deadlines
// ---------------------------------------------------------------------------------------------

//@ func (*cache).nodeToEntry : C12 C01 C03
//@   requires cfg(c) && n != nil
//@   ensures [entry-fields] same(result.Key, ghost_key(n)) && same(result.Value, ghost_value(n)) && result.Weight == weightOf(n)
//@   ensures [C12:entry-deadlines] result.ExpiresAtNano == pickI64(c.withExpiration, ghost_expiresAt(n), math.MaxInt64) && result.RefreshableAtNano == pickI64(c.withRefresh, ghost_refreshableAt(n), math.MaxInt64)
//@   ensures [C12:entry-snapshot] result.SnapshotAtNano == pickI64(c.withTime, nanos, 0)

//@ func (*cache).setExpiresAfterRead : C12 C03
//@   requires cfg(c) && c.withExpiration && nowNano >= 0 && n != nil
//@   requires [C03:deadline-only-live] live(n, nowNano)
//@   modifies n.expiresAt
//@   ensures [C12:read-exact] expiresAfter > 0 ==> ghost_expiresAt(n) == satadd(nowNano, int64(expiresAfter))
//@   ensures [C12:read-keep] expiresAfter <= 0 ==> ghost_expiresAt(n) == pre(ghost_expiresAt(n))

//@ func (*cache).calcExpiresAtAfterRead : C12 C03
//@   requires cfg(c) && nowNano >= 0 && n != nil
//@   requires [C03:deadline-only-live] c.withExpiration ==> live(n, nowNano)
//@   modifies n.expiresAt, ghost_calls_ExpireAfterRead(), ghost_ret_ExpireAfterRead()
//@   ensures [C12:read-hook-once] c.withExpiration ==> ghost_calls_ExpireAfterRead() == pre(ghost_calls_ExpireAfterRead()) + 1
//@   ensures [C12:read-deadline] c.withExpiration && ghost_ret_ExpireAfterRead() > 0 ==> ghost_expiresAt(n) == satadd(nowNano, int64(ghost_ret_ExpireAfterRead()))
//@   ensures [C12:read-keep] !c.withExpiration || ghost_ret_ExpireAfterRead() <= 0 ==> ghost_expiresAt(n) == pre(ghost_expiresAt(n))
//@   ensures [C12:no-hook-unconfigured] !c.withExpiration ==> ghost_calls_ExpireAfterRead() == pre(ghost_calls_ExpireAfterRead()) && ghost_ret_ExpireAfterRead() == pre(ghost_ret_ExpireAfterRead())

//@ func (*cache).calcExpiresAtAfterWrite : C12
//@   requires cfg(c) && nowNano >= 0 && n != nil && n != old
//@   modifies n.expiresAt, ghost_calls_ExpireAfterCreate(), ghost_ret_ExpireAfterCreate(), ghost_calls_ExpireAfterUpdate(), ghost_ret_ExpireAfterUpdate()
//@   ensures [C12:create-vs-update] c.withExpiration && !live(old, nowNano) ==> ghost_calls_ExpireAfterCreate() == pre(ghost_calls_ExpireAfterCreate()) + 1 && ghost_calls_ExpireAfterUpdate() == pre(ghost_calls_ExpireAfterUpdate())
//@   ensures [C12:update-vs-create] c.withExpiration && live(old, nowNano) ==> ghost_calls_ExpireAfterUpdate() == pre(ghost_calls_ExpireAfterUpdate()) + 1 && ghost_calls_ExpireAfterCreate() == pre(ghost_calls_ExpireAfterCreate())
//@   ensures [C12:write-exact] c.withExpiration && pick(live(old, nowNano), ghost_ret_ExpireAfterUpdate(), ghost_ret_ExpireAfterCreate()) > 0 ==> ghost_expiresAt(n) == satadd(nowNano, int64(pick(live(old, nowNano), ghost_ret_ExpireAfterUpdate(), ghost_ret_ExpireAfterCreate())))
//@   ensures [C12:no-hook-unconfigured] !c.withExpiration ==> ghost_calls_ExpireAfterCreate() == pre(ghost_calls_ExpireAfterCreate()) && ghost_calls_ExpireAfterUpdate() == pre(ghost_calls_ExpireAfterUpdate())
//@   ensures [C12:write-keep] !c.withExpiration || pick(live(old, nowNano), ghost_ret_ExpireAfterUpdate(), ghost_ret_ExpireAfterCreate()) <= 0 ==> ghost_expiresAt(n) == pre(ghost_expiresAt(n))

//@ macro RHOOKS = ghost_calls_RefreshAfterCreate(), ghost_ret_RefreshAfterCreate(), ghost_calls_RefreshAfterUpdate(), ghost_ret_RefreshAfterUpdate(), ghost_calls_RefreshAfterReload(), ghost_ret_RefreshAfterReload(), ghost_calls_RefreshAfterReloadFailure(), ghost_ret_RefreshAfterReloadFailure()

//@ func (*cache).calcRefreshableAt : C12 C11
//@   requires cfg(c) && nowNano >= 0 && n != nil
//@   modifies n.refreshableAt, $RHOOKS
//@   ensures [C12:refresh-unconfigured] !c.withRefresh ==> ghost_refreshableAt(n) == pre(ghost_refreshableAt(n)) && ghost_calls_RefreshAfterCreate() == pre(ghost_calls_RefreshAfterCreate()) && ghost_calls_RefreshAfterUpdate() == pre(ghost_calls_RefreshAfterUpdate()) && ghost_calls_RefreshAfterReload() == pre(ghost_calls_RefreshAfterReload()) && ghost_calls_RefreshAfterReloadFailure() == pre(ghost_calls_RefreshAfterReloadFailure())
//@   ensures [C11:notfound-keeps-deadline] c.withRefresh && reloadCase(old, cl) && cl.isNotFound ==> ghost_refreshableAt(n) == pre(ghost_refreshableAt(n))
//@   ensures [C12:refresh-create-hook] c.withRefresh && !reloadCase(old, cl) && !live(old, nowNano) ==> ghost_calls_RefreshAfterCreate() == pre(ghost_calls_RefreshAfterCreate()) + 1 && ghost_calls_RefreshAfterUpdate() == pre(ghost_calls_RefreshAfterUpdate())
//@   ensures [C12:refresh-update-hook] c.withRefresh && !reloadCase(old, cl) && live(old, nowNano) ==> ghost_calls_RefreshAfterUpdate() == pre(ghost_calls_RefreshAfterUpdate()) + 1 && ghost_calls_RefreshAfterCreate() == pre(ghost_calls_RefreshAfterCreate())
//@   ensures [C11:reload-hooks] c.withRefresh && reloadCase(old, cl) && !cl.isNotFound ==> (cl.err != nil ==> ghost_calls_RefreshAfterReloadFailure() == pre(ghost_calls_RefreshAfterReloadFailure()) + 1) && (cl.err == nil ==> ghost_calls_RefreshAfterReload() == pre(ghost_calls_RefreshAfterReload()) + 1)
//@   ensures [C12:refresh-exact] c.withRefresh && !(reloadCase(old, cl) && cl.isNotFound) && refreshDur(old, cl, nowNano) > 0 ==> ghost_refreshableAt(n) == satadd(nowNano, int64(refreshDur(old, cl, nowNano)))
//@   ensures [C12:refresh-keep] c.withRefresh && !(reloadCase(old, cl) && cl.isNotFound) && refreshDur(old, cl, nowNano) <= 0 ==> ghost_refreshableAt(n) == pre(ghost_refreshableAt(n))

//@ func (*cache).newNode : C12 C01 C03
//@   requires cfg(c)
//@   requires [old-distinct] true
//@   modifies ghost_calls_weigher(), ghost_ret_weigher()
//@   ensures [new-node] result != nil && result != old && same(ghost_key(result), key) && same(ghost_value(result), value) && alive(result)
//@   ensures [C12:inherit-deadline] c.withExpiration ==> ghost_expiresAt(result) == pickI64(old != nil, ghost_expiresAt(old), math.MaxInt64)
//@   ensures [C12:inherit-refresh] c.withRefresh ==> ghost_refreshableAt(result) == pickI64(old != nil, ghost_refreshableAt(old), math.MaxInt64)
//@   ensures [new-weight] c.isWeighted ==> ghost_weight(result) == ghost_ret_weigher()

// expiry calculators: creation-only, write-reset, access-reset
//@ func (*varExpiryCreating).ExpireAfterCreate : C12
//@   modifies ghost_calls_f(), ghost_ret_f()
//@   ensures [C12:creating-create] result == ghost_ret_f() && ghost_calls_f() == pre(ghost_calls_f()) + 1
//@ func (*varExpiryCreating).ExpireAfterUpdate : C12
//@   ensures [C12:creating-update-keeps] result == time.Duration(entry.ExpiresAtNano-entry.SnapshotAtNano)
//@ func (*varExpiryCreating).ExpireAfterRead : C12
//@   ensures [C12:creating-read-keeps] result == time.Duration(entry.ExpiresAtNano-entry.SnapshotAtNano)
//@ func (*varExpiryWriting).ExpireAfterCreate : C12
//@   modifies ghost_calls_f(), ghost_ret_f()
//@   ensures [C12:writing-create] result == ghost_ret_f() && ghost_calls_f() == pre(ghost_calls_f()) + 1
//@ func (*varExpiryWriting).ExpireAfterUpdate : C12
//@   modifies ghost_calls_f(), ghost_ret_f()
//@   ensures [C12:writing-update] result == ghost_ret_f() && ghost_calls_f() == pre(ghost_calls_f()) + 1
//@ func (*varExpiryWriting).ExpireAfterRead : C12
//@   ensures [C12:writing-read-keeps] result == time.Duration(entry.ExpiresAtNano-entry.SnapshotAtNano)
//@ func (*varExpiryAccessing).ExpireAfterCreate : C12
//@   modifies ghost_calls_f(), ghost_ret_f()
//@   ensures [C12:accessing-create] result == ghost_ret_f() && ghost_calls_f() == pre(ghost_calls_f()) + 1
//@ func (*varExpiryAccessing).ExpireAfterUpdate : C12
//@   modifies ghost_calls_f(), ghost_ret_f()
//@   ensures [C12:accessing-update] result == ghost_ret_f() && ghost_calls_f() == pre(ghost_calls_f()) + 1
//@ func (*varExpiryAccessing).ExpireAfterRead : C12
//@   modifies ghost_calls_f(), ghost_ret_f()
//@   ensures [C12:accessing-read] result == ghost_ret_f() && ghost_calls_f() == pre(ghost_calls_f()) + 1

// refresh calculators
//@ func (*varRefreshCreating).RefreshAfterCreate : C12
//@   modifies ghost_calls_f(), ghost_ret_f()
//@   ensures [C12:rcreating-create] result == ghost_ret_f() && ghost_calls_f() == pre(ghost_calls_f()) + 1
//@ func (*varRefreshCreating).RefreshAfterUpdate : C12
//@   ensures [C12:rcreating-update-keeps] result == time.Duration(entry.RefreshableAtNano-entry.SnapshotAtNano)
//@ func (*varRefreshCreating).RefreshAfterReload : C12
//@   ensures [C12:rcreating-reload-keeps] result == time.Duration(entry.RefreshableAtNano-entry.SnapshotAtNano)
//@ func (*varRefreshCreating).RefreshAfterReloadFailure : C12
//@   ensures [C12:rcreating-failure-keeps] result == time.Duration(entry.RefreshableAtNano-entry.SnapshotAtNano)
//@ func (*varRefreshWriting).RefreshAfterCreate : C12
//@   modifies ghost_calls_f(), ghost_ret_f()
//@   ensures [C12:rwriting-create] result == ghost_ret_f() && ghost_calls_f() == pre(ghost_calls_f()) + 1
//@ func (*varRefreshWriting).RefreshAfterUpdate : C12
//@   modifies ghost_calls_f(), ghost_ret_f()
//@   ensures [C12:rwriting-update] result == ghost_ret_f() && ghost_calls_f() == pre(ghost_calls_f()) + 1
//@ func (*varRefreshWriting).RefreshAfterReload : C12
//@   modifies ghost_calls_f(), ghost_ret_f()
//@   ensures [C12:rwriting-reload] result == ghost_ret_f() && ghost_calls_f() == pre(ghost_calls_f()) + 1
//@ func (*varRefreshWriting).RefreshAfterReloadFailure : C12
//@   ensures [C12:rwriting-failure-keeps] result == time.Duration(entry.RefreshableAtNano-entry.SnapshotAtNano)

// entry snapshots
//@ func Entry.ExpiresAfter : C12
//@   ensures [C12:entry-remaining] result == time.Duration(e.ExpiresAtNano-e.SnapshotAtNano)
//@ func Entry.RefreshableAfter : C12
//@   ensures [C12:entry-refresh-remaining] result == time.Duration(e.RefreshableAtNano-e.SnapshotAtNano)
//@ func Entry.HasExpired : C12 C03
//@   ensures [C12:entry-visible-iff-before] result == (e.ExpiresAtNano <= e.SnapshotAtNano)

// per-entry overrides
//@ func (*cache).SetExpiresAfter : C12 C03 C01 C20
//@   requires cfg(c)
//@   modifies $MAINT, $EVLOG, ghost_now(), ghost_tbl(c.hashmap, key).expiresAt
//@   ensures [C12:override-exact] c.withExpiration && expiresAfter > 0 && pre(ghost_tbl(c.hashmap, key)) != nil && pre(alive(ghost_tbl(c.hashmap, key))) && pre(ghost_expiresAt(ghost_tbl(c.hashmap, key))) > ghost_now() ==> ghost_expiresAt(pre(ghost_tbl(c.hashmap, key))) == satadd(ghost_now(), int64(expiresAfter))
//@   ensures [C03:no-resurrect] pre(ghost_tbl(c.hashmap, key)) != nil && c.withExpiration && pre(ghost_expiresAt(ghost_tbl(c.hashmap, key))) <= ghost_now() ==> ghost_expiresAt(pre(ghost_tbl(c.hashmap, key))) == pre(ghost_expiresAt(ghost_tbl(c.hashmap, key)))
//@   ensures [C12:override-ignored] !c.withExpiration || expiresAfter <= 0 ==> pre(ghost_tbl(c.hashmap, key)) == nil || ghost_expiresAt(pre(ghost_tbl(c.hashmap, key))) == pre(ghost_expiresAt(ghost_tbl(c.hashmap, key)))
//@   ensures [C20:quiet] ghost_hits() == pre(ghost_hits()) && ghost_misses() == pre(ghost_misses())

//@ func (*cache).SetRefreshableAfter : C12 C03 C01 C20
//@   requires cfg(c)
//@   modifies ghost_now(), ghost_tbl(c.hashmap, key).refreshableAt
//@   ensures [C12:refresh-override-exact] c.withRefresh && refreshableAfter > 0 && pre(ghost_tbl(c.hashmap, key)) != nil && pre(alive(ghost_tbl(c.hashmap, key))) && pre(live(ghost_tbl(c.hashmap, key), 0)) && (!c.withExpiration || pre(ghost_expiresAt(ghost_tbl(c.hashmap, key))) > ghost_now()) ==> ghost_refreshableAt(pre(ghost_tbl(c.hashmap, key))) == satadd(ghost_now(), int64(refreshableAfter))
//@   ensures [C03:no-touch-expired] pre(ghost_tbl(c.hashmap, key)) != nil && c.withRefresh && c.withExpiration && pre(ghost_expiresAt(ghost_tbl(c.hashmap, key))) <= ghost_now() ==> ghost_refreshableAt(pre(ghost_tbl(c.hashmap, key))) == pre(ghost_refreshableAt(ghost_tbl(c.hashmap, key)))
//@   ensures [C20:quiet] ghost_hits() == pre(ghost_hits()) && ghost_misses() == pre(ghost_misses())

// ---------------------------------------------------------------------------------------------
// C18 — frequency sketch and admission
// ---------------------------------------------------------------------------------------------

//@ func (*sketch).frequency : C18
//@   requires s.isNotInitialized() || wfSketch(s)
//@   loop 1: unroll 4
//@   ensures [C18:zero-before-init] s.isNotInitialized() ==> result == 0
//@   ensures [C18:same-counters] result == estOf(s, k)
//@   ensures [C18:le-15] result <= 15

//@ func (*sketch).incrementAt : C18
//@   inline verified on its own and inlined at its four call sites (its postcondition quantifies over all other counters)
//@   var qstar uint64
//@   requires i < uint64(len(s.table)) && j < 16
//@   modifies s.table[i]
//@   ensures [C18:saturating] nib(s.table[i], j) == minU64(pre(nib(s.table[i], j))+1, 15)
//@   ensures [C18:other-counters-untouched] qstar < 16 && qstar != j ==> nib(s.table[i], qstar) == pre(nib(s.table[i], qstar))
//@   ensures [C18:added-iff-not-saturated] result == (pre(nib(s.table[i], j)) != 15)
//@   ensures [len-kept] len(s.table) == pre(len(s.table))

//@ func (*sketch).reset : C18
//@   var jstar uint64
//@   var qstar uint64
//@   modifies s.table[*], s.size
//@   loop 1: invariant i >= 0 && i <= len(s.table) && len(s.table) == pre(len(s.table))
//@   loop 1: invariant jstar < uint64(i) ==> s.table[jstar] == (pre(s.table[jstar])>>1)&resetMask
//@   loop 1: invariant jstar >= uint64(i) && jstar < uint64(len(s.table)) ==> s.table[jstar] == pre(s.table[jstar])
//@   ensures [C18:reset-halves] jstar < uint64(len(s.table)) && qstar < 16 ==> nib(s.table[jstar], qstar) == pre(nib(s.table[jstar], qstar))>>1
//@   ensures [len-kept] len(s.table) == pre(len(s.table)) && s.blockMask == pre(s.blockMask)

//@ func (*sketch).increment : C18
//@   var hstar uint64
//@   requires s.isNotInitialized() || wfSketch(s)
//@   modifies s.table[*], s.size
//@   ensures [C18:noop-before-init] s.isNotInitialized() ==> est(s, hstar) == pre(est(s, hstar))
//@   ensures [C18:no-undercount-self] !s.isNotInitialized() && pre(s.size)+1 != s.sampleSize ==> est(s, s.hash(k)) >= minU64(pre(est(s, s.hash(k)))+1, 15)
//@   ensures [C18:no-undercount-others] !s.isNotInitialized() && pre(s.size)+1 != s.sampleSize ==> est(s, hstar) >= pre(est(s, hstar))
//@   ensures [C18:wf-kept] wfSketch(s) == pre(wfSketch(s))

//@ func (*sketch).ensureCapacity : C18
//@   var hstar uint64
//@   requires maximumSize <= 1<<62
//@   requires s.isNotInitialized() || wfSketch(s)
//@   modifies s.table, s.sampleSize, s.blockMask, s.size, sketch::hasher.seed.s, s.isInitialized
//@   ensures [C18:capacity-wf] pre(uint64(len(s.table))) < maximumSize ==> wfSketch(s) && !s.isNotInitialized() && uint64(len(s.table)) >= maximumSize
//@   ensures [C18:new-period-zero] pre(uint64(len(s.table))) < maximumSize ==> est(s, hstar) == 0
//@   ensures [C18:no-op-when-large-enough] pre(uint64(len(s.table))) >= maximumSize ==> same(s.table, pre(s.table)) && s.blockMask == pre(s.blockMask) && s.isNotInitialized() == pre(s.isNotInitialized())

//@ func (*policy).admit : C18 C04 C07
//@   requires p.sketch != nil && (p.sketch.isNotInitialized() || wfSketch(p.sketch))
//@   modifies ghost_calls_rand(), ghost_ret_rand()
//@   ensures [C18:admit-greater] estOf(p.sketch, candidateKey) > estOf(p.sketch, victimKey) ==> result
//@   ensures [C18:admit-strict] result ==> estOf(p.sketch, candidateKey) > estOf(p.sketch, victimKey) || (estOf(p.sketch, candidateKey) >= 6 && ghost_ret_rand()&127 == 0)
//@   ensures [C18:admit-random-only-warm] result && estOf(p.sketch, candidateKey) <= estOf(p.sketch, victimKey) ==> estOf(p.sketch, candidateKey) >= 6
