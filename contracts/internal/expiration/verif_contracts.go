//go:build verif

package expiration

import "github.com/maypok86/otter/v2/internal/generated/node"

// Timer wheel (C13). The wheel tables are package variables initialised at package init; their contents are
// declared here and compared with the real values by an executed test on every run.

//@ global buckets = 64, 64, 32, 4, 1
//@ global spans = 1073741824, 68719476736, 4398046511104, 140737488355328, 562949953421312, 562949953421312
//@ global shift = 30, 36, 42, 47, 49

func implies(a, b bool) bool  { return !a || b }
func same[T any](a, b T) bool { panic("spec") }

func ghost_expiresAt[K comparable, V any](n node.Node[K, V]) int64 { panic("ghost") }
func ghost_hasExp() bool                                            { panic("ghost") }
func ghost_hasExpLinks() bool                                       { panic("ghost") }

// ghost_inWheel(n): n is linked into some bucket of the wheel
func ghost_inWheel[K comparable, V any](n node.Node[K, V]) bool { panic("ghost") }

func ghost_calls_deleteExpiredFromBucket() int { panic("ghost") }
func ghost_calls_expireNode() int              { panic("ghost") }

// removal notifications issued / removals recorded by the cache (the callback's effects, see (*cache).evictNode)
func ghost_calls_notifyDeletion() int { panic("ghost") }
func ghost_evictions() uint64         { panic("ghost") }

// SpecWfWheel exports the wheel's shape invariant to the cache package's contracts.
func SpecWfWheel[K comparable, V any](v *Variable[K, V]) bool { return wfWheel(v) }

func minU64(a, b uint64) uint64 {
	if a < b {
		return a
	}
	return b
}

func maxU64(a, b uint64) uint64 {
	if a > b {
		return a
	}
	return b
}

// specLevel: the wheel level for a timer that is d nanoseconds ahead of the wheel time.
func specLevel(d uint64) int {
	for i := 0; i < 4; i++ {
		if d < spans[i+1] {
			return i
		}
	}
	return 4
}

func tick(t uint64, i int) uint64 { return t >> shift[i] }

// specSlot: the bucket of level i that a deadline e hashes to.
func specSlot(e uint64, i int) uint64 {
	if i == 4 {
		return 0
	}
	return tick(e, i) & (buckets[i] - 1)
}

// wfWheel: the wheel has the five levels with the declared numbers of buckets.
func wfWheel[K comparable, V any](v *Variable[K, V]) bool {
	return len(v.wheel) == 5 && len(v.wheel[0]) == 64 && len(v.wheel[1]) == 64 && len(v.wheel[2]) == 32 && len(v.wheel[3]) == 4 && len(v.wheel[4]) == 1
}

// levelsToSweep: number of leading wheel levels whose tick changed between t0 and t1 (the sweep stops at the first idle level).
func levelsToSweep(t0, t1 uint64) int {
	n := 0
	for i := 0; i < 5; i++ {
		if tick(t1, i)-tick(t0, i) == 0 {
			return n
		}
		n++
	}
	return n
}

// visited: does the sweep t0 -> t1 visit bucket s of level i?
func visited(s, t0, t1 uint64, i int) bool {
	for k := 0; k <= i; k++ {
		if tick(t1, k) == tick(t0, k) {
			return false
		}
	}
	if i == 4 {
		return true
	}
	delta := tick(t1, i) - tick(t0, i)
	steps := minU64(delta+1, buckets[i])
	return (s-(tick(t0, i)&(buckets[i]-1)))&(buckets[i]-1) < steps
}

// wheelInv: a timer with deadline e, scheduled while the wheel time was <= t, sitting in level i bucket s,
// will be met by the sweep before it is overdue by a tick.
func wheelInv(e, t uint64, i int, s uint64) bool {
	if !(t <= e && s == specSlot(e, i)) {
		return false
	}
	switch {
	case i == 0:
		return tick(e, 0)-tick(t, 0) <= 64
	case i < 4:
		return tick(t, i) < tick(e, i) && tick(e, i)-tick(t, i) <= buckets[i]
	default:
		return tick(t, 4) < tick(e, 4)
	}
}

// Lemmas (pure bit-vector arithmetic, all 64-bit values below 2^63): placement establishes the invariant (L1),
// a sweep that does not visit the bucket preserves it (L2), a sweep that leaves the deadline a full tick behind visits it (L3).

func lemmaL1(e, t uint64) bool {
	if !(t <= e && e < 1<<63) {
		return true
	}
	return wheelInv(e, t, specLevel(e-t), specSlot(e, specLevel(e-t)))
}

func lemmaL2(e, t, t1 uint64, i int, s uint64) bool {
	if !(i >= 0 && i <= 4 && e < 1<<63) {
		return true
	}
	if !(wheelInv(e, t, i, s) && t <= t1 && t1 <= e && !visited(s, t, t1, i)) {
		return true
	}
	return wheelInv(e, t1, i, s)
}

func lemmaL3(e, t, t1 uint64, i int, s uint64) bool {
	if !(i >= 0 && i <= 4 && e < 1<<62 && t1 < 1<<63) {
		return true
	}
	if !(wheelInv(e, t, i, s) && t <= t1 && e+1<<30 <= t1) {
		return true
	}
	return visited(s, t, t1, i)
}

//@ macro SWEEPFX = node::state, node::queueType, node::prev, node::next, node::prevExp, node::nextExp, ghost_inWheel(*), ghost_calls_expireNode(), policy::weightedSize, policy::windowWeightedSize, policy::mainProtectedWeightedSize, Linked::*, ghost_tbl(*), ghost_calls(*), ghost_inDeque(*), ghost_evictions(), ghost_evictionWeight(), ghost_calls_onDeletion(), ghost_calls_notifyDeletion(), ghost_calls_onAtomicDeletion()
//@ macro EVDELTA = uint64(ghost_calls_notifyDeletion()) - ghost_evictions()

//@ func lemmaL1 : C13
//@   ensures [C13:L1-placement-establishes-invariant] result

//@ func lemmaL2 : C13
//@   ensures [C13:L2-unvisited-bucket-keeps-invariant] result

//@ func lemmaL3 : C13
//@   ensures [C13:L3-overdue-timer-is-visited] result

// wheelShape(w, n): the first n levels of w have the lengths of the bucket table
func wheelShape[K comparable, V any](w [][]node.Node[K, V], n int) bool {
	for k := 0; k < 5; k++ {
		if k < n && uint64(len(w[k])) != buckets[k] {
			return false
		}
	}
	return true
}

//@ func NewVariable : C13 C05
//@   fresh
//@   requires nodeManager != nil && ghost_hasExp() && ghost_hasExpLinks()
//@   modifies Variable::*, node::prevExp, node::nextExp, []node.Node::*
//@   loop 1: unroll 5
//@   loop 2: invariant [levels-so-far] len(wheel) == 5 && i >= 0 && i < 5 && wheelShape(wheel, i+1) && j >= 0
//@   ensures [C13:wheel-starts-well-formed] result != nil && wfWheel(result) && result.time == 0

//@ func (*Variable).findBucket : C13
//@   requires wfWheel(v)
//@   loop 1: unroll 4
//@   ensures [C13:bucket-of-deadline] result == v.wheel[specLevel(maxU64(expiration, v.time)-v.time)][specSlot(maxU64(expiration, v.time), specLevel(maxU64(expiration, v.time)-v.time))]

//@ func link : C13 C05
//@   assumed A-ring: pointer manipulation of the circular bucket list (not verified)
//@   modifies ghost_inWheel(n), node::prevExp, node::nextExp
//@   ensures [scheduled] ghost_inWheel(n)

//@ func unlink : C13 C05
//@   assumed A-ring
//@   modifies ghost_inWheel(n), node::prevExp, node::nextExp
//@   ensures [unscheduled] !ghost_inWheel(n)

//@ func (*Variable).Add : C13 C05
//@   requires wfWheel(v) && ghost_hasExp() && ghost_hasExpLinks()
//@   modifies ghost_inWheel(n), node::prevExp, node::nextExp
//@   ensures [C05:scheduled] ghost_inWheel(n)

//@ func (*Variable).Delete : C13 C05
//@   requires ghost_hasExpLinks() && n != nil
//@   modifies ghost_inWheel(n), node::prevExp, node::nextExp
//@   ensures [C05:unscheduled] !ghost_inWheel(n)

//@ func (*Variable).deleteExpiredFromBucket : C13 C07
//@   counted
//@   requires wfWheel(v) && ghost_hasExp() && ghost_hasExpLinks() && index >= 0 && index < 5
//@   modifies $SWEEPFX
//@   callback expireNode: requires [C07:expiration-justified] cb_nowNanos == int64(v.time) && uint64(ghost_expiresAt(cb_n)) < v.time
//@   callback expireNode: modifies $SWEEPFX
//@   callback expireNode: ensures [C06:one-notification-per-expiration] $EVDELTA == pre($EVDELTA)
//@   loop 1: invariant [C06:expirations-notified-one-to-one] $EVDELTA == pre($EVDELTA)
//@   loop 2: invariant [C06:expirations-notified-one-to-one] $EVDELTA == pre($EVDELTA)
//@   ensures [C06:expirations-notified-one-to-one] $EVDELTA == pre($EVDELTA)
//@   loop 1: invariant [C13:sweep-range] start == prevTicks&(buckets[index]-1) && end == start+minU64(delta+1, buckets[index]) && mask == buckets[index]-1 && i >= start && i <= end && wfWheel(v) && index >= 0 && index < 5 && same(timerWheel, v.wheel[index])
//@   loop 2: invariant [inner] wfWheel(v) && index >= 0 && index < 5
//@   loop 2: assume [A-ring] n != nil
//@   callback expireNode: requires [expired-node-exists] cb_n != nil
//@   note C13: a timer met by the sweep that is not yet due is rescheduled through Add, i.e. by the placement rule of findBucket against the new wheel time (lemma L1 then re-establishes its invariant); it is never linked into a bucket by any other route
//@   calls-only (*Variable).Add

//@ func (*Variable).DeleteExpired : C13 C07
//@   counted
//@   requires wfWheel(v) && ghost_hasExp() && ghost_hasExpLinks() && nowNanos >= 0
//@   modifies $SWEEPFX, v.time, ghost_calls_deleteExpiredFromBucket()
//@   loop 1: unroll 5
//@   callback expireNode: requires [C07:expiration-justified] uint64(ghost_expiresAt(cb_n)) < uint64(cb_nowNanos)
//@   callback expireNode: requires [expired-node-exists] cb_n != nil
//@   callback expireNode: modifies $SWEEPFX
//@   callback expireNode: ensures [C06:one-notification-per-expiration] $EVDELTA == pre($EVDELTA)
//@   ensures [C06:expirations-notified-one-to-one] $EVDELTA == pre($EVDELTA)
//@   ensures [C13:time-advanced] v.time == uint64(nowNanos)
//@   ensures [C13:sweeps-levels-until-first-idle] ghost_calls_deleteExpiredFromBucket() == pre(ghost_calls_deleteExpiredFromBucket()) + levelsToSweep(pre(v.time), uint64(nowNanos))

// ---------------------------------------------------------------------------------------------
// Bounded stand-in for A-ring (NOT a proof): the real link / unlink / Delete code is executed symbolically
// (`bodies`: the contracts of this package are switched off) on every bucket ring of at most three timers built by
// the real link, followed by one more link or by the removal of any member or of an unscheduled node.
// Bound: <= 3 timers in one bucket (+ one outside node), one operation after construction.
// ---------------------------------------------------------------------------------------------

// ring: root's bucket holds exactly s0..s(n-1), in this order
func ring[K comparable, V any](r, s0, s1, s2, s3 node.Node[K, V], n int) bool {
	switch n {
	case 0:
		return r.NextExp() == r && r.PrevExp() == r
	case 1:
		return r.NextExp() == s0 && s0.NextExp() == r && r.PrevExp() == s0 && s0.PrevExp() == r
	case 2:
		return r.NextExp() == s0 && s0.NextExp() == s1 && s1.NextExp() == r && r.PrevExp() == s1 && s1.PrevExp() == s0 && s0.PrevExp() == r
	case 3:
		return r.NextExp() == s0 && s0.NextExp() == s1 && s1.NextExp() == s2 && s2.NextExp() == r &&
			r.PrevExp() == s2 && s2.PrevExp() == s1 && s1.PrevExp() == s0 && s0.PrevExp() == r
	case 4:
		return r.NextExp() == s0 && s0.NextExp() == s1 && s1.NextExp() == s2 && s2.NextExp() == s3 && s3.NextExp() == r &&
			r.PrevExp() == s3 && s3.PrevExp() == s2 && s2.PrevExp() == s1 && s1.PrevExp() == s0 && s0.PrevExp() == r
	}
	return false
}

func rbuild[K comparable, V any](r, a, b, c node.Node[K, V], m int) {
	if m >= 1 {
		link(r, a)
	}
	if m >= 2 {
		link(r, b)
	}
	if m >= 3 {
		link(r, c)
	}
}

func rpick[K comparable, V any](a, b, c, x node.Node[K, V], i int) node.Node[K, V] {
	switch i {
	case 0:
		return a
	case 1:
		return b
	case 2:
		return c
	}
	return x
}

func rBuild[K comparable, V any](r, a, b, c node.Node[K, V], m int) { rbuild(r, a, b, c, m) }

func rLink[K comparable, V any](r, a, b, c, x node.Node[K, V], m int) {
	rbuild(r, a, b, c, m)
	link(r, x)
}

func rDelete[K comparable, V any](v *Variable[K, V], r, a, b, c, x node.Node[K, V], m, i int) {
	rbuild(r, a, b, c, m)
	v.Delete(rpick(a, b, c, x, i))
}

func okRLink[K comparable, V any](r, a, b, c, x node.Node[K, V], m int) bool {
	switch m {
	case 0:
		return ring(r, x, nil, nil, nil, 1)
	case 1:
		return ring(r, a, x, nil, nil, 2)
	case 2:
		return ring(r, a, b, x, nil, 3)
	}
	return ring(r, a, b, c, x, 4)
}

func okRDelete[K comparable, V any](r, a, b, c, x node.Node[K, V], m, i int) bool {
	n := rpick(a, b, c, x, i)
	if n.NextExp() != nil || n.PrevExp() != nil {
		return false
	}
	if i >= m {
		return ring(r, a, b, c, nil, m)
	}
	switch i {
	case 0:
		return ring(r, b, c, nil, nil, m-1)
	case 1:
		return ring(r, a, c, nil, nil, m-1)
	}
	return ring(r, a, b, nil, nil, m-1)
}


//@ func rBuild : C13 C05
//@   bounded bucket rings of at most 3 timers built by link
//@   bodies
//@   var x node.Node[K, V]
//@   requires r != nil
//@   requires a != nil
//@   requires b != nil
//@   requires c != nil
//@   requires x != nil
//@   requires r != a
//@   requires r != b
//@   requires r != c
//@   requires r != x
//@   requires a != b
//@   requires a != c
//@   requires a != x
//@   requires b != c
//@   requires b != x
//@   requires c != x
//@   requires m >= 0
//@   requires m <= 3
//@   requires ghost_hasExp()
//@   requires ghost_hasExpLinks()
//@   requires r.NextExp() == r
//@   requires r.PrevExp() == r
//@   requires a.PrevExp() == nil
//@   requires a.NextExp() == nil
//@   requires b.PrevExp() == nil
//@   requires b.NextExp() == nil
//@   requires c.PrevExp() == nil
//@   requires c.NextExp() == nil
//@   requires x.PrevExp() == nil
//@   requires x.NextExp() == nil
//@   modifies *
//@   ensures [bounded:links-append-to-the-bucket] ring(r, a, b, c, nil, m) && x.NextExp() == nil && x.PrevExp() == nil

//@ func rLink : C13 C05
//@   bounded bucket rings of at most 3 timers, one more link
//@   bodies
//@   requires r != nil
//@   requires a != nil
//@   requires b != nil
//@   requires c != nil
//@   requires x != nil
//@   requires r != a
//@   requires r != b
//@   requires r != c
//@   requires r != x
//@   requires a != b
//@   requires a != c
//@   requires a != x
//@   requires b != c
//@   requires b != x
//@   requires c != x
//@   requires m >= 0
//@   requires m <= 3
//@   requires ghost_hasExp()
//@   requires ghost_hasExpLinks()
//@   requires r.NextExp() == r
//@   requires r.PrevExp() == r
//@   requires a.PrevExp() == nil
//@   requires a.NextExp() == nil
//@   requires b.PrevExp() == nil
//@   requires b.NextExp() == nil
//@   requires c.PrevExp() == nil
//@   requires c.NextExp() == nil
//@   requires x.PrevExp() == nil
//@   requires x.NextExp() == nil
//@   modifies *
//@   ensures [bounded:link-appends] okRLink(r, a, b, c, x, m)

//@ func rDelete : C13 C05
//@   bounded bucket rings of at most 3 timers, Variable.Delete of any member or of an unscheduled node
//@   bodies
//@   requires r != nil
//@   requires a != nil
//@   requires b != nil
//@   requires c != nil
//@   requires x != nil
//@   requires r != a
//@   requires r != b
//@   requires r != c
//@   requires r != x
//@   requires a != b
//@   requires a != c
//@   requires a != x
//@   requires b != c
//@   requires b != x
//@   requires c != x
//@   requires m >= 0
//@   requires m <= 3
//@   requires ghost_hasExp()
//@   requires ghost_hasExpLinks()
//@   requires r.NextExp() == r
//@   requires r.PrevExp() == r
//@   requires a.PrevExp() == nil
//@   requires a.NextExp() == nil
//@   requires b.PrevExp() == nil
//@   requires b.NextExp() == nil
//@   requires c.PrevExp() == nil
//@   requires c.NextExp() == nil
//@   requires x.PrevExp() == nil
//@   requires x.NextExp() == nil
//@   requires v != nil
//@   requires i >= 0
//@   requires i <= 3
//@   modifies *
//@   ensures [bounded:delete-unlinks-exactly-that-timer] okRDelete(r, a, b, c, x, m, i)

// ---------------------------------------------------------------------------------------------
// Unbounded proofs of the ring's pointer code (for rings of every size). The real link / unlink / Variable.Delete
// are executed (`bodies`: the assumed contracts of this package are switched off) from an arbitrary heap in which the
// nodes they touch are consistently linked; the postconditions give the exact new links and say that the consistency
// of every other node (an arbitrary mstar) is kept. What stays assumed in A-ring is only that the abstract
// relation ghost_inWheel(n) means "n.NextExp() != nil", and what the sweep's traversal needs (reachability).
// ---------------------------------------------------------------------------------------------

// ringOK(m): m is unscheduled (both links nil) or its two neighbours point back at it
func ringOK[K comparable, V any](m node.Node[K, V]) bool {
	nx, pv := m.NextExp(), m.PrevExp()
	if nx == nil {
		return pv == nil
	}
	return pv != nil && nx.PrevExp() == m && pv.NextExp() == m
}

func pLink[K comparable, V any](root, n node.Node[K, V])             { link(root, n) }
func pUnlink[K comparable, V any](n node.Node[K, V])                   { unlink(n) }
func pDelete[K comparable, V any](v *Variable[K, V], n node.Node[K, V]) { v.Delete(n) }

//@ func pLink : C13 C05
//@   bodies
//@   var mstar node.Node[K, V]
//@   requires ghost_hasExpLinks() && root != nil && n != nil && mstar != nil
//@   requires [the-bucket-ring-is-consistent-at-its-root] root.NextExp() != nil && ringOK(root) && ringOK(root.PrevExp())
//@   requires [the-timer-is-unscheduled] n.NextExp() == nil && n.PrevExp() == nil
//@   modifies node::prevExp, node::nextExp
//@   ensures [C13:linked-at-the-tail-of-its-bucket] n.NextExp() == root && root.PrevExp() == n && n.PrevExp() == pre(root.PrevExp()) && pre(root.PrevExp()).NextExp() == n
//@   ensures [C05:scheduled-and-consistent] n.NextExp() != nil && ringOK(n) && ringOK(root)
//@   ensures [C05:every-other-timer-stays-consistently-linked] pre(ringOK(mstar)) ==> ringOK(mstar)
//@   ensures [C05:no-other-timer-is-scheduled-or-unscheduled] mstar != n ==> (mstar.NextExp() != nil) == pre(mstar.NextExp() != nil)

//@ func pUnlink : C13 C05
//@   bodies
//@   var mstar node.Node[K, V]
//@   requires ghost_hasExpLinks() && n != nil && mstar != nil && ringOK(n)
//@   requires [neighbours-consistent] n.NextExp() != nil ==> ringOK(n.NextExp()) && ringOK(n.PrevExp())
//@   modifies node::prevExp, node::nextExp
//@   ensures [C05:neighbours-are-joined] pre(n.NextExp()) != nil && pre(n.NextExp()) != n ==> pre(n.PrevExp()).NextExp() == pre(n.NextExp()) && pre(n.NextExp()).PrevExp() == pre(n.PrevExp())
//@   ensures [C05:every-other-timer-stays-consistently-linked] mstar != n && pre(ringOK(mstar)) ==> ringOK(mstar)
//@   ensures [C05:no-other-timer-is-scheduled-or-unscheduled] mstar != n ==> (mstar.NextExp() != nil) == pre(mstar.NextExp() != nil)

//@ func pDelete : C13 C05
//@   bodies
//@   var mstar node.Node[K, V]
//@   requires ghost_hasExpLinks() && v != nil && n != nil && mstar != nil && ringOK(n)
//@   requires [neighbours-consistent] n.NextExp() != nil ==> ringOK(n.NextExp()) && ringOK(n.PrevExp())
//@   requires [not-alone-in-a-ring] n.NextExp() != n
//@   modifies node::prevExp, node::nextExp
//@   ensures [C05:unscheduled] n.NextExp() == nil && n.PrevExp() == nil && ringOK(n)
//@   ensures [C05:neighbours-are-joined] pre(n.NextExp()) != nil ==> pre(n.PrevExp()).NextExp() == pre(n.NextExp()) && pre(n.NextExp()).PrevExp() == pre(n.PrevExp())
//@   ensures [C05:every-other-timer-stays-consistently-linked] pre(ringOK(mstar)) ==> ringOK(mstar)
//@   ensures [C05:no-other-timer-is-scheduled-or-unscheduled] mstar != n ==> (mstar.NextExp() != nil) == pre(mstar.NextExp() != nil)
