//go:build verif

package expiration

import "github.com/maypok86/otter/v2/internal/generated/node"

// Timer wheel (C13). The wheel tables are package variables initialised at package init; their contents are
// declared here and compared with the real values by an executed test on every run.

//@ global buckets = 64, 64, 32, 4, 1
//@ global spans = 1073741824, 68719476736, 4398046511104, 140737488355328, 562949953421312, 562949953421312
//@ global shift = 30, 36, 42, 47, 49

func implies(a, b bool) bool  { return !a || b }
func same[T any](a, b T) bool { panic("spec") }

func ghost_expiresAt[K comparable, V any](n node.Node[K, V]) int64 { panic("ghost") }
func ghost_hasExp() bool                                            { panic("ghost") }
func ghost_hasExpLinks() bool                                       { panic("ghost") }

// ghost_inWheel(n): n is linked into some bucket of the wheel
func ghost_inWheel[K comparable, V any](n node.Node[K, V]) bool { panic("ghost") }

func ghost_calls_deleteExpiredFromBucket() int { panic("ghost") }
func ghost_calls_expireNode() int              { panic("ghost") }

// removal notifications issued / removals recorded by the cache (the callback's effects, see (*cache).evictNode)
func ghost_calls_notifyDeletion() int { panic("ghost") }
func ghost_evictions() uint64         { panic("ghost") }

// SpecWfWheel exports the wheel's shape invariant to the cache package's contracts.
func SpecWfWheel[K comparable, V any](v *Variable[K, V]) bool { return wfWheel(v) }

func minU64(a, b uint64) uint64 {
	if a < b {
		return a
	}
	return b
}

func maxU64(a, b uint64) uint64 {
	if a > b {
		return a
	}
	return b
}

// specLevel: the wheel level for a timer that is d nanoseconds ahead of the wheel time.
func specLevel(d uint64) int {
	for i := 0; i < 4; i++ {
		if d < spans[i+1] {
			return i
		}
	}
	return 4
}

func tick(t uint64, i int) uint64 { return t >> shift[i] }

// specSlot: the bucket of level i that a deadline e hashes to.
func specSlot(e uint64, i int) uint64 {
	if i == 4 {
		return 0
	}
	return tick(e, i) & (buckets[i] - 1)
}

// wfWheel: the wheel has the five levels with the declared numbers of buckets.
func wfWheel[K comparable, V any](v *Variable[K, V]) bool {
	return len(v.wheel) == 5 && len(v.wheel[0]) == 64 && len(v.wheel[1]) == 64 && len(v.wheel[2]) == 32 && len(v.wheel[3]) == 4 && len(v.wheel[4]) == 1
}

// levelsToSweep: number of leading wheel levels whose tick changed between t0 and t1 (the sweep stops at the first idle level).
func levelsToSweep(t0, t1 uint64) int {
	n := 0
	for i := 0; i < 5; i++ {
		if tick(t1, i)-tick(t0, i) == 0 {
			return n
		}
		n++
	}
	return n
}

// visited: does the sweep t0 -> t1 visit bucket s of level i?
func visited(s, t0, t1 uint64, i int) bool {
	for k := 0; k <= i; k++ {
		if tick(t1, k) == tick(t0, k) {
			return false
		}
	}
	if i == 4 {
		return true
	}
	delta := tick(t1, i) - tick(t0, i)
	steps := minU64(delta+1, buckets[i])
	return (s-(tick(t0, i)&(buckets[i]-1)))&(buckets[i]-1) < steps
}

// wheelInv: a timer with deadline e, scheduled while the wheel time was <= t, sitting in level i bucket s,
// will be met by the sweep before it is overdue by a tick.
func wheelInv(e, t uint64, i int, s uint64) bool {
	if !(t <= e && s == specSlot(e, i)) {
		return false
	}
	switch {
	case i == 0:
		return tick(e, 0)-tick(t, 0) <= 64
	case i < 4:
		return tick(t, i) < tick(e, i) && tick(e, i)-tick(t, i) <= buckets[i]
	default:
		return tick(t, 4) < tick(e, 4)
	}
}

// Lemmas (pure bit-vector arithmetic, all 64-bit values below 2^63): placement establishes the invariant (L1),
// a sweep that does not visit the bucket preserves it (L2), a sweep that leaves the deadline a full tick behind visits it (L3).

func lemmaL1(e, t uint64) bool {
	if !(t <= e && e < 1<<63) {
		return true
	}
	return wheelInv(e, t, specLevel(e-t), specSlot(e, specLevel(e-t)))
}

func lemmaL2(e, t, t1 uint64, i int, s uint64) bool {
	if !(i >= 0 && i <= 4 && e < 1<<63) {
		return true
	}
	if !(wheelInv(e, t, i, s) && t <= t1 && t1 <= e && !visited(s, t, t1, i)) {
		return true
	}
	return wheelInv(e, t1, i, s)
}

func lemmaL3(e, t, t1 uint64, i int, s uint64) bool {
	if !(i >= 0 && i <= 4 && e < 1<<62 && t1 < 1<<63) {
		return true
	}
	if !(wheelInv(e, t, i, s) && t <= t1 && e+1<<30 <= t1) {
		return true
	}
	return visited(s, t, t1, i)
}

//@ macro SWEEPFX = node::state, node::queueType, node::prev, node::next, node::prevExp, node::nextExp, ghost_inWheel(*), ghost_calls_expireNode(), policy::weightedSize, policy::windowWeightedSize, policy::mainProtectedWeightedSize, Linked::*, ghost_tbl(*), ghost_calls(*), ghost_inDeque(*), ghost_evictions(), ghost_evictionWeight(), ghost_calls_onDeletion(), ghost_calls_notifyDeletion(), ghost_calls_onAtomicDeletion()
//@ macro EVDELTA = uint64(ghost_calls_notifyDeletion()) - ghost_evictions()

//@ func lemmaL1 : C13
//@   ensures [C13:L1-placement-establishes-invariant] result

//@ func lemmaL2 : C13
//@   ensures [C13:L2-unvisited-bucket-keeps-invariant] result

//@ func lemmaL3 : C13
//@   ensures [C13:L3-overdue-timer-is-visited] result

// wheelShape(w, n): the first n levels of w have the lengths of the bucket table
func wheelShape[K comparable, V any](w [][]node.Node[K, V], n int) bool {
	for k := 0; k < 5; k++ {
		if k < n && uint64(len(w[k])) != buckets[k] {
			return false
		}
	}
	return true
}

//@ func NewVariable : C13 C05
//@   fresh
//@   requires nodeManager != nil && ghost_hasExp() && ghost_hasExpLinks()
//@   modifies Variable::*, node::prevExp, node::nextExp, []node.Node::*
//@   loop 1: unroll 5
//@   loop 2: invariant [levels-so-far] len(wheel) == 5 && i >= 0 && i < 5 && wheelShape(wheel, i+1) && j >= 0
//@   ensures [C13:wheel-starts-well-formed] result != nil && wfWheel(result) && result.time == 0

//@ func (*Variable).findBucket : C13
//@   requires wfWheel(v)
//@   loop 1: unroll 4
//@   ensures [C13:bucket-of-deadline] result == v.wheel[specLevel(maxU64(expiration, v.time)-v.time)][specSlot(maxU64(expiration, v.time), specLevel(maxU64(expiration, v.time)-v.time))]

//@ func link : C13 C05
//@   assumed A-ring: pointer manipulation of the circular bucket list (not verified)
//@   modifies ghost_inWheel(n), node::prevExp, node::nextExp
//@   ensures [scheduled] ghost_inWheel(n)

//@ func unlink : C13 C05
//@   assumed A-ring
//@   modifies ghost_inWheel(n), node::prevExp, node::nextExp
//@   ensures [unscheduled] !ghost_inWheel(n)

//@ func (*Variable).Add : C13 C05
//@   requires wfWheel(v) && ghost_hasExp() && ghost_hasExpLinks()
//@   modifies ghost_inWheel(n), node::prevExp, node::nextExp
//@   ensures [C05:scheduled] ghost_inWheel(n)

//@ func (*Variable).Delete : C13 C05
//@   requires ghost_hasExpLinks() && n != nil
//@   modifies ghost_inWheel(n), node::prevExp, node::nextExp
//@   ensures [C05:unscheduled] !ghost_inWheel(n)

//@ func (*Variable).deleteExpiredFromBucket : C13 C07
//@   counted
//@   requires wfWheel(v) && ghost_hasExp() && ghost_hasExpLinks() && index >= 0 && index < 5
//@   modifies $SWEEPFX
//@   callback expireNode: requires [C07:expiration-justified] cb_nowNanos == int64(v.time) && uint64(ghost_expiresAt(cb_n)) < v.time
//@   callback expireNode: modifies $SWEEPFX
//@   callback expireNode: ensures [C06:one-notification-per-expiration] $EVDELTA == pre($EVDELTA)
//@   loop 1: invariant [C06:expirations-notified-one-to-one] $EVDELTA == pre($EVDELTA)
//@   loop 2: invariant [C06:expirations-notified-one-to-one] $EVDELTA == pre($EVDELTA)
//@   ensures [C06:expirations-notified-one-to-one] $EVDELTA == pre($EVDELTA)
//@   loop 1: invariant [C13:sweep-range] start == prevTicks&(buckets[index]-1) && end == start+minU64(delta+1, buckets[index]) && mask == buckets[index]-1 && i >= start && i <= end && wfWheel(v) && index >= 0 && index < 5 && same(timerWheel, v.wheel[index])
//@   loop 2: invariant [inner] wfWheel(v) && index >= 0 && index < 5
//@   loop 2: assume [A-ring] n != nil
//@   callback expireNode: requires [expired-node-exists] cb_n != nil

//@ func (*Variable).DeleteExpired : C13 C07
//@   counted
//@   requires wfWheel(v) && ghost_hasExp() && ghost_hasExpLinks() && nowNanos >= 0
//@   modifies $SWEEPFX, v.time, ghost_calls_deleteExpiredFromBucket()
//@   loop 1: unroll 5
//@   callback expireNode: requires [C07:expiration-justified] uint64(ghost_expiresAt(cb_n)) < uint64(cb_nowNanos)
//@   callback expireNode: requires [expired-node-exists] cb_n != nil
//@   callback expireNode: modifies $SWEEPFX
//@   callback expireNode: ensures [C06:one-notification-per-expiration] $EVDELTA == pre($EVDELTA)
//@   ensures [C06:expirations-notified-one-to-one] $EVDELTA == pre($EVDELTA)
//@   ensures [C13:time-advanced] v.time == uint64(nowNanos)
//@   ensures [C13:sweeps-levels-until-first-idle] ghost_calls_deleteExpiredFromBucket() == pre(ghost_calls_deleteExpiredFromBucket()) + levelsToSweep(pre(v.time), uint64(nowNanos))
