//go:build verif

package xsync

// The striped adder is a concurrent structure (CAS on randomly chosen stripes): its interleavings are outside the
// technique (C20 lists it as not covered). What the statistics counter relies on is stated as an assumed contract
// over the ghost sum of the adder.

func implies(a, b bool) bool { return !a || b }

// the sum the adder holds
func ghost_adderValue(a *Adder) uint64 { panic("ghost") }

//@ func (*Adder).Add : C20
//@   assumed A-adder: the striped CAS adder is outside the technique; an Add increases the sum by delta
//@   modifies ghost_adderValue(a)
//@   ensures [adds-delta] ghost_adderValue(a) == pre(ghost_adderValue(a)) + delta

//@ func (*Adder).Value : C20
//@   assumed A-adder: at quiescence Value returns the sum of all Adds
//@   ensures [reads-the-sum] result == ghost_adderValue(a)

//@ func NewAdder : C20
//@   assumed A-adder: a new adder is a fresh object holding zero
//@   fresh
//@   ensures [fresh-zero] result != nil && ghost_adderValue(result) == 0
