//go:build verif

package xmath

import "math"

// Specification helpers (compiled only under the verif tag).

func implies(a, b bool) bool { return !a || b }

// satadd is the mathematical min(a+b, MaxInt64) on non-negative int64.
func satadd(a, b int64) int64 {
	if a > math.MaxInt64-b {
		return math.MaxInt64
	}
	return a + b
}

func isPow2(x uint64) bool { return x != 0 && x&(x-1) == 0 }

//@ func Abs : C12
//@   ensures [C12:abs-nonneg] a != math.MinInt64 ==> result >= 0
//@   ensures [C12:abs-value] (a >= 0 ==> result == a) && (a < 0 ==> result == -a)
//@   ensures [C12:abs-zero] (result == 0) == (a == 0)

//@ func SaturatedAdd : C12
//@   requires a >= 0 && b >= 0
//@   ensures [C12:satadd-exact] result == satadd(a, b)
//@   ensures [C12:satadd-never-wraps] result >= a && result >= b

//@ func RoundUpPowerOf264 : C18 C13
//@   requires x <= 1<<63
//@   ensures [C18:pow2] isPow2(result)
//@   ensures [C18:pow2-ge] result >= x
//@   ensures [C18:pow2-tight] x > 1 ==> result>>1 < x
