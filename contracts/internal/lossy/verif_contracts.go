//go:build verif

package lossy

import "github.com/maypok86/otter/v2/internal/generated/node"

// The lossy read buffer is outside the technique's reach (C17, interleavings). Its operations get
// assumed contracts that say only what the sequential callers rely on: no visible state changes.

//@ func NewStriped : C05 C01
//@   fresh
//@   ensures [a-buffer-exists] result != nil

//@ func (*Striped).Add : C01 C03 C12 C20
//@   assumed C17 is not applicable; recording a read changes nothing the cache operations observe
//@   ensures [status-range] result == Success || result == Failed || result == Full

//@ func (*Striped).DrainTo : C05
//@   assumed C17 is not applicable: hands every buffered read, each a node that was recorded by Add (hence not nil), to the consumer; the buffers themselves are invisible to the callers
//@   modifies node::queueType, node::prev, node::next, node::prevExp, node::nextExp, ghost_inWheel(*), ghost_inDeque(*), policy::windowWeightedSize, policy::mainProtectedWeightedSize, policy::hitsInSample, Linked::*, sketch::*, ghost_calls_increment(), []uint64::*
//@   callback consumer: requires [recorded-node] cb_n != nil
//@   callback consumer: modifies node::queueType, node::prev, node::next, node::prevExp, node::nextExp, ghost_inWheel(*), ghost_inDeque(*), policy::windowWeightedSize, policy::mainProtectedWeightedSize, policy::hitsInSample, Linked::*, sketch::*, ghost_calls_increment(), []uint64::*
//@   own-modifies

// ---------------------------------------------------------------------------------------------
// Bounded stand-in for the sequential content of the read buffer's ring (NOT a proof, nothing about interleavings -
// C17 stays not applicable): the real ring code is executed symbolically (`bodies`) by one goroutine: a ring is
// created with a first node, two more are added, the ring is drained twice. Expected: the three recorded nodes are
// handed to the consumer once each, in the order they were recorded, and a second drain hands out nothing.
// ---------------------------------------------------------------------------------------------

func bRing[K comparable, V any](nm *node.Manager[K, V], a, b, c node.Node[K, V]) (s1, s2 Status, g1, g2, g3, g4 node.Node[K, V], cnt, ln0, ln1 int) {
	r := newRing(nm, a)
	s1 = r.add(b)
	s2 = r.add(c)
	ln0 = r.len()
	r.drainTo(func(n node.Node[K, V]) {
		switch cnt {
		case 0:
			g1 = n
		case 1:
			g2 = n
		case 2:
			g3 = n
		default:
			g4 = n
		}
		cnt++
	})
	ln1 = r.len()
	r.drainTo(func(n node.Node[K, V]) {
		g4 = n
		cnt++
	})
	return
}

//@ func bRing : C05
//@   bounded one goroutine: a ring created with one node, two adds, two drains
//@   bodies
//@   requires nm != nil && a != nil && b != nil && c != nil && a != b && a != c && b != c
//@   modifies *
//@   ensures [bounded:recorded-nodes-handed-out-once-in-order] s1 == Success && s2 == Success && ln0 == 3 && ln1 == 0 && cnt == 3 && g1 == a && g2 == b && g3 == c && g4 == nil
