//go:build verif

package lossy

// The lossy read buffer is outside the technique's reach (C17, interleavings). Its operations get
// assumed contracts that say only what the sequential callers rely on: no visible state changes.

//@ func (*Striped).Add : C01 C03 C12 C20
//@   assumed C17 is not applicable; recording a read changes nothing the cache operations observe
//@   ensures [status-range] result == Success || result == Failed || result == Full
