//go:build verif

package lossy

// The lossy read buffer is outside the technique's reach (C17, interleavings). Its operations get
// assumed contracts that say only what the sequential callers rely on: no visible state changes.

//@ func (*Striped).Add : C01 C03 C12 C20
//@   assumed C17 is not applicable; recording a read changes nothing the cache operations observe
//@   ensures [status-range] result == Success || result == Failed || result == Full

//@ func (*Striped).DrainTo : C05
//@   assumed C17 is not applicable: hands every buffered read, each a node that was recorded by Add (hence not nil), to the consumer; the buffers themselves are invisible to the callers
//@   modifies node::queueType, node::prev, node::next, node::prevExp, node::nextExp, ghost_inWheel(*), ghost_inDeque(*), policy::windowWeightedSize, policy::mainProtectedWeightedSize, policy::hitsInSample, Linked::*, sketch::*, []uint64::*
//@   callback consumer: requires [recorded-node] cb_n != nil
//@   callback consumer: modifies node::queueType, node::prev, node::next, node::prevExp, node::nextExp, ghost_inWheel(*), ghost_inDeque(*), policy::windowWeightedSize, policy::mainProtectedWeightedSize, policy::hitsInSample, Linked::*, sketch::*, []uint64::*
//@   own-modifies
