//go:build verif

package xiter

// Iterator combinators. MergeFunc is built on iter.Pull (coroutines), which is outside the verifier's reach;
// both combinators get assumed contracts: the result is an opaque iterator whose elements are elements of the
// inputs (the iterator-call rule then checks the consumer's loop body for an arbitrary element).

//@ func Concat : C01 C03 C05 C19
//@   assumed yields the elements of its inputs, in order (trusted)

//@ func MergeFunc : C01 C03 C05 C19
//@   assumed yields every element of both inputs exactly once (iter.Pull based; trusted)
