//go:build verif

package node

import "unsafe"

var _ unsafe.Pointer

// Interface contract of Node[K, V] over abstract (ghost) node fields. Every generated variant
// (B, BS, BE, ... BERW) is verified against it; callers of the interface see only this contract.
//
// Abstract fields: key value prev next prevExp nextExp expiresAt refreshableAt weight state queueType.
// Feature flags of a node (constant per variant, derived from the fields the struct has):
// hasExp hasRefresh hasWeight hasSize (prev/next/queueType) hasState hasExpLinks (prevExp/nextExp).

func implies(a, b bool) bool    { return !a || b }
func same[T any](a, b T) bool   { panic("spec") }
func iff(a, b bool) bool        { return a == b }

func ghost_key[K comparable, V any](n Node[K, V]) K                   { panic("ghost") }
func ghost_value[K comparable, V any](n Node[K, V]) V                 { panic("ghost") }
func ghost_prev[K comparable, V any](n Node[K, V]) Node[K, V]         { panic("ghost") }
func ghost_next[K comparable, V any](n Node[K, V]) Node[K, V]         { panic("ghost") }
func ghost_prevExp[K comparable, V any](n Node[K, V]) Node[K, V]      { panic("ghost") }
func ghost_nextExp[K comparable, V any](n Node[K, V]) Node[K, V]      { panic("ghost") }
func ghost_expiresAt[K comparable, V any](n Node[K, V]) int64         { panic("ghost") }
func ghost_refreshableAt[K comparable, V any](n Node[K, V]) int64     { panic("ghost") }
func ghost_weight[K comparable, V any](n Node[K, V]) uint32           { panic("ghost") }
func ghost_state[K comparable, V any](n Node[K, V]) uint32            { panic("ghost") }
func ghost_queueType[K comparable, V any](n Node[K, V]) uint8         { panic("ghost") }
func ghost_hasExp() bool             { panic("ghost") }
func ghost_hasRefresh() bool         { panic("ghost") }
func ghost_hasWeight() bool          { panic("ghost") }
func ghost_hasSize() bool            { panic("ghost") }
func ghost_hasState() bool           { panic("ghost") }
func ghost_hasExpLinks() bool        { panic("ghost") }

func specAlive[K comparable, V any](n Node[K, V]) bool {
	return !ghost_hasState() || ghost_state(n) == aliveState
}

// Global invariants of the deadline fields: assumed at every read, required of every setter call.
//@ fieldinv ghost_expiresAt: v >= 0
//@ fieldinv ghost_refreshableAt: v >= 0
//@ fieldinv ghost_queueType: v <= 2

//@ iface Node.Key : C01 C03
//@   nopanic
//@   ensures [key] same(result, ghost_key(n))

//@ iface Node.Value : C01 C03
//@   nopanic
//@   ensures [value] same(result, ghost_value(n))

//@ iface Node.Prev : C01 C05
//@   nopanic
//@   requires [needs-size] ghost_hasSize()
//@   ensures [prev] result == ghost_prev(n)

//@ iface Node.SetPrev : C01 C05
//@   nopanic
//@   requires [needs-size] ghost_hasSize()
//@   modifies n.prev
//@   ensures [set-prev] ghost_prev(n) == v

//@ iface Node.Next : C01 C05
//@   nopanic
//@   requires [needs-size] ghost_hasSize()
//@   ensures [next] result == ghost_next(n)

//@ iface Node.SetNext : C01 C05
//@   nopanic
//@   requires [needs-size] ghost_hasSize()
//@   modifies n.next
//@   ensures [set-next] ghost_next(n) == v

//@ iface Node.PrevExp : C01 C13
//@   nopanic
//@   requires [needs-exp] ghost_hasExpLinks()
//@   ensures [prevExp] result == ghost_prevExp(n)

//@ iface Node.SetPrevExp : C01 C13
//@   nopanic
//@   requires [needs-exp] ghost_hasExpLinks()
//@   modifies n.prevExp
//@   ensures [set-prevExp] ghost_prevExp(n) == v

//@ iface Node.NextExp : C01 C13
//@   nopanic
//@   requires [needs-exp] ghost_hasExpLinks()
//@   ensures [nextExp] result == ghost_nextExp(n)

//@ iface Node.SetNextExp : C01 C13
//@   nopanic
//@   requires [needs-exp] ghost_hasExpLinks()
//@   modifies n.nextExp
//@   ensures [set-nextExp] ghost_nextExp(n) == v

//@ iface Node.HasExpired : C01 C03 C12
//@   nopanic
//@   ensures [C03:expired-iff-deadline-reached] result == (ghost_hasExp() && ghost_expiresAt(n) <= now)

//@ iface Node.ExpiresAt : C01 C03 C12
//@   nopanic
//@   requires [needs-exp] ghost_hasExp()
//@   ensures [expiresAt] result == ghost_expiresAt(n)

//@ iface Node.CASExpiresAt : C01 C03 C12
//@   nopanic
//@   requires [needs-exp] ghost_hasExp()
//@   requires [C12:never-in-the-past] new >= 0
//@   modifies n.expiresAt
//@   ensures [cas-result] result == (pre(ghost_expiresAt(n)) == old)
//@   ensures [cas-effect] (result ==> ghost_expiresAt(n) == new) && (!result ==> ghost_expiresAt(n) == pre(ghost_expiresAt(n)))

//@ iface Node.SetExpiresAt : C01 C03 C12
//@   nopanic
//@   requires [needs-exp] ghost_hasExp()
//@   requires [C12:never-in-the-past] new >= 0
//@   modifies n.expiresAt
//@   ensures [set-expiresAt] ghost_expiresAt(n) == new

//@ iface Node.RefreshableAt : C01 C11 C12
//@   nopanic
//@   requires [needs-refresh] ghost_hasRefresh()
//@   ensures [refreshableAt] result == ghost_refreshableAt(n)

//@ iface Node.CASRefreshableAt : C01 C11 C12
//@   nopanic
//@   requires [needs-refresh] ghost_hasRefresh()
//@   requires [C12:never-in-the-past] new >= 0
//@   modifies n.refreshableAt
//@   ensures [cas-result] result == (pre(ghost_refreshableAt(n)) == old)
//@   ensures [cas-effect] (result ==> ghost_refreshableAt(n) == new) && (!result ==> ghost_refreshableAt(n) == pre(ghost_refreshableAt(n)))

//@ iface Node.SetRefreshableAt : C01 C11 C12
//@   nopanic
//@   requires [needs-refresh] ghost_hasRefresh()
//@   requires [C12:never-in-the-past] new >= 0
//@   modifies n.refreshableAt
//@   ensures [set-refreshableAt] ghost_refreshableAt(n) == new

//@ iface Node.IsFresh : C01 C11 C12
//@   nopanic
//@   ensures [C11:fresh-iff-before-refresh-time] result == (!ghost_hasRefresh() || (specAlive(n) && ghost_refreshableAt(n) > now))

//@ iface Node.Weight : C01 C04 C07
//@   nopanic
//@   ensures [weight] (ghost_hasWeight() ==> result == ghost_weight(n)) && (!ghost_hasWeight() ==> result == 1)

//@ iface Node.IsAlive : C01 C03 C05
//@   nopanic
//@   ensures [alive] result == specAlive(n)

//@ iface Node.IsRetired : C01 C05
//@   nopanic
//@   requires [needs-state] ghost_hasState()
//@   ensures [retired] result == (ghost_state(n) == retiredState)

//@ iface Node.Retire : C01 C05
//@   nopanic
//@   requires [needs-state] ghost_hasState()
//@   modifies n.state
//@   ensures [retire] ghost_state(n) == retiredState

//@ iface Node.IsDead : C01 C05
//@   nopanic
//@   requires [needs-state] ghost_hasState()
//@   ensures [dead] result == (ghost_state(n) == deadState)

//@ iface Node.Die : C01 C05
//@   nopanic
//@   requires [needs-state] ghost_hasState()
//@   modifies n.state
//@   ensures [die] ghost_state(n) == deadState

//@ iface Node.GetQueueType : C01 C05
//@   nopanic
//@   requires [needs-size] ghost_hasSize()
//@   ensures [queueType] result == ghost_queueType(n)

//@ iface Node.SetQueueType : C01 C05
//@   nopanic
//@   requires [needs-size] ghost_hasSize()
//@   requires [queue-type-range] queueType <= 2
//@   modifies n.queueType
//@   ensures [set-queueType] ghost_queueType(n) == queueType

//@ iface Node.InWindow : C01 C05
//@   nopanic
//@   requires [needs-size] ghost_hasSize()
//@   ensures [inWindow] result == (ghost_queueType(n) == InWindowQueue)

//@ iface Node.MakeWindow : C01 C05
//@   nopanic
//@   requires [needs-size] ghost_hasSize()
//@   modifies n.queueType
//@   ensures [makeWindow] ghost_queueType(n) == InWindowQueue

//@ iface Node.InMainProbation : C01 C05
//@   nopanic
//@   requires [needs-size] ghost_hasSize()
//@   ensures [inProbation] result == (ghost_queueType(n) == InMainProbationQueue)

//@ iface Node.MakeMainProbation : C01 C05
//@   nopanic
//@   requires [needs-size] ghost_hasSize()
//@   modifies n.queueType
//@   ensures [makeProbation] ghost_queueType(n) == InMainProbationQueue

//@ iface Node.InMainProtected : C01 C05
//@   nopanic
//@   requires [needs-size] ghost_hasSize()
//@   ensures [inProtected] result == (ghost_queueType(n) == InMainProtectedQueue)

//@ iface Node.MakeMainProtected : C01 C05
//@   nopanic
//@   requires [needs-size] ghost_hasSize()
//@   modifies n.queueType
//@   ensures [makeProtected] ghost_queueType(n) == InMainProtectedQueue

// The twelve generated constructors New<X> (X = B, BS, BE, ... BERW) are verified, each under the feature flags of its
// own struct, against the postconditions that Manager.Create promises to its callers.
//@ func NewB : C01 C12 C03 C04 C11
//@   per-variant New
//@   fresh
//@   requires [C12:never-in-the-past] expiresAt >= 0 && refreshableAt >= 0
//@   ensures [C01:constructor-stores-key-and-value] result != nil && same(ghost_key(result), key) && same(ghost_value(result), value)
//@   ensures [C12:constructor-stores-deadlines] (ghost_hasExp() ==> ghost_expiresAt(result) == expiresAt) && (ghost_hasRefresh() ==> ghost_refreshableAt(result) == refreshableAt)
//@   ensures [C04:constructor-stores-weight] ghost_hasWeight() ==> ghost_weight(result) == weight
//@   ensures [C05:constructor-alive-unlinked] (ghost_hasState() ==> ghost_state(result) == aliveState) && (ghost_hasSize() ==> ghost_queueType(result) == InWindowQueue && ghost_prev(result) == nil && ghost_next(result) == nil)
//@   ensures [C13:constructor-unscheduled] ghost_hasExpLinks() ==> ghost_prevExp(result) == nil && ghost_nextExp(result) == nil

//@ func CastPointerToB : C05 C01
//@   per-variant CastPointerTo
//@   requires ptr != nil
//@   ensures [round-trip] result != nil && result.AsPointer() == ptr

// SpecFlagsOf: the feature flags of the node variant in use are exactly the configured ones (links, queue type and
// weight bookkeeping exist iff the cache is bounded by size or by weight; the life-cycle state iff it has maintenance).
func SpecFlagsOf(c Config) bool {
	return ghost_hasExp() == c.WithExpiration && ghost_hasRefresh() == c.WithRefresh && ghost_hasWeight() == c.WithWeight &&
		ghost_hasSize() == (c.WithSize || c.WithWeight) && ghost_hasExpLinks() == c.WithExpiration &&
		ghost_hasState() == (c.WithSize || c.WithWeight || c.WithExpiration)
}

// NewManager is verified once under the feature flags of every variant X (variantNew = New<X>, variantCast =
// CastPointerTo<X>): whenever it selects X's constructor, X has exactly the configured features.
//@ func NewManager : C01 C12 C03
//@   per-variant self
//@   var variantNew func(key K, value V, expiresAt, refreshableAt int64, weight uint32) Node[K, V]
//@   var variantCast func(ptr unsafe.Pointer) Node[K, V]
//@   fresh
//@   nopanic
//@   ensures [C01:chosen-variant-has-exactly-the-configured-features] same(result.create, variantNew) ==> SpecFlagsOf(c) && same(result.fromPointer, variantCast)
//@   requires [one-size-discipline] !(c.WithSize && c.WithWeight)
//@   ensures [C01:variant-b] !c.WithSize && !c.WithExpiration && !c.WithRefresh && !c.WithWeight ==> same(result.create, NewB[K, V]) && same(result.fromPointer, CastPointerToB[K, V])
//@   ensures [C01:variant-bs] c.WithSize && !c.WithExpiration && !c.WithRefresh && !c.WithWeight ==> same(result.create, NewBS[K, V]) && same(result.fromPointer, CastPointerToBS[K, V])
//@   ensures [C01:variant-be] !c.WithSize && c.WithExpiration && !c.WithRefresh && !c.WithWeight ==> same(result.create, NewBE[K, V]) && same(result.fromPointer, CastPointerToBE[K, V])
//@   ensures [C01:variant-br] !c.WithSize && !c.WithExpiration && c.WithRefresh && !c.WithWeight ==> same(result.create, NewBR[K, V]) && same(result.fromPointer, CastPointerToBR[K, V])
//@   ensures [C01:variant-bw] !c.WithSize && !c.WithExpiration && !c.WithRefresh && c.WithWeight ==> same(result.create, NewBW[K, V]) && same(result.fromPointer, CastPointerToBW[K, V])
//@   ensures [C01:variant-bse] c.WithSize && c.WithExpiration && !c.WithRefresh && !c.WithWeight ==> same(result.create, NewBSE[K, V]) && same(result.fromPointer, CastPointerToBSE[K, V])
//@   ensures [C01:variant-bsr] c.WithSize && !c.WithExpiration && c.WithRefresh && !c.WithWeight ==> same(result.create, NewBSR[K, V]) && same(result.fromPointer, CastPointerToBSR[K, V])
//@   ensures [C01:variant-ber] !c.WithSize && c.WithExpiration && c.WithRefresh && !c.WithWeight ==> same(result.create, NewBER[K, V]) && same(result.fromPointer, CastPointerToBER[K, V])
//@   ensures [C01:variant-bew] !c.WithSize && c.WithExpiration && !c.WithRefresh && c.WithWeight ==> same(result.create, NewBEW[K, V]) && same(result.fromPointer, CastPointerToBEW[K, V])
//@   ensures [C01:variant-brw] !c.WithSize && !c.WithExpiration && c.WithRefresh && c.WithWeight ==> same(result.create, NewBRW[K, V]) && same(result.fromPointer, CastPointerToBRW[K, V])
//@   ensures [C01:variant-bser] c.WithSize && c.WithExpiration && c.WithRefresh && !c.WithWeight ==> same(result.create, NewBSER[K, V]) && same(result.fromPointer, CastPointerToBSER[K, V])
//@   ensures [C01:variant-berw] !c.WithSize && c.WithExpiration && c.WithRefresh && c.WithWeight ==> same(result.create, NewBERW[K, V]) && same(result.fromPointer, CastPointerToBERW[K, V])

//@ func (*Manager).Create : C01 C12 C03
//@   assumed dispatch only: m.create is the function value NewManager stored (never reassigned) and the abstract feature flags are those of the variant it belongs to. Verified separately: NewManager stores New<X> / CastPointerTo<X> of the variant X with exactly the configured features; each of the twelve New<X> establishes these postconditions (per-variant contract NewB)
//@   fresh
//@   requires [C12:never-in-the-past] expiresAt >= 0 && refreshableAt >= 0
//@   ensures [create-fields] result != nil && same(ghost_key(result), key) && same(ghost_value(result), value)
//@   ensures [create-deadlines] (ghost_hasExp() ==> ghost_expiresAt(result) == expiresAt) && (ghost_hasRefresh() ==> ghost_refreshableAt(result) == refreshableAt)
//@   ensures [create-weight] ghost_hasWeight() ==> ghost_weight(result) == weight
//@   ensures [create-state] (ghost_hasState() ==> ghost_state(result) == aliveState) && (ghost_hasSize() ==> ghost_queueType(result) == InWindowQueue && ghost_prev(result) == nil && ghost_next(result) == nil)
//@   ensures [create-unlinked] ghost_hasExpLinks() ==> ghost_prevExp(result) == nil && ghost_nextExp(result) == nil

//@ func (*Manager).FromPointer : C05
//@   assumed dispatch only (as for Create); each of the twelve CastPointerTo<X> is verified to return the node the pointer was taken from (per-variant contract CastPointerToB)
//@   ensures [round-trip] result != nil && result.AsPointer() == ptr
