//go:build verif

package node

// Interface contract of Node[K, V] over abstract (ghost) node fields. Every generated variant
// (B, BS, BE, ... BERW) is verified against it; callers of the interface see only this contract.
//
// Abstract fields: key value prev next prevExp nextExp expiresAt refreshableAt weight state queueType.
// Feature flags of a node (constant per variant, derived from the fields the struct has):
// hasExp hasRefresh hasWeight hasSize (prev/next/queueType) hasState hasExpLinks (prevExp/nextExp).

func implies(a, b bool) bool    { return !a || b }
func same[T any](a, b T) bool   { panic("spec") }
func iff(a, b bool) bool        { return a == b }

func ghost_key[K comparable, V any](n Node[K, V]) K                   { panic("ghost") }
func ghost_value[K comparable, V any](n Node[K, V]) V                 { panic("ghost") }
func ghost_prev[K comparable, V any](n Node[K, V]) Node[K, V]         { panic("ghost") }
func ghost_next[K comparable, V any](n Node[K, V]) Node[K, V]         { panic("ghost") }
func ghost_prevExp[K comparable, V any](n Node[K, V]) Node[K, V]      { panic("ghost") }
func ghost_nextExp[K comparable, V any](n Node[K, V]) Node[K, V]      { panic("ghost") }
func ghost_expiresAt[K comparable, V any](n Node[K, V]) int64         { panic("ghost") }
func ghost_refreshableAt[K comparable, V any](n Node[K, V]) int64     { panic("ghost") }
func ghost_weight[K comparable, V any](n Node[K, V]) uint32           { panic("ghost") }
func ghost_state[K comparable, V any](n Node[K, V]) uint32            { panic("ghost") }
func ghost_queueType[K comparable, V any](n Node[K, V]) uint8         { panic("ghost") }
func ghost_hasExp() bool             { panic("ghost") }
func ghost_hasRefresh() bool         { panic("ghost") }
func ghost_hasWeight() bool          { panic("ghost") }
func ghost_hasSize() bool            { panic("ghost") }
func ghost_hasState() bool           { panic("ghost") }
func ghost_hasExpLinks() bool        { panic("ghost") }

func specAlive[K comparable, V any](n Node[K, V]) bool {
	return !ghost_hasState() || ghost_state(n) == aliveState
}

// Global invariants of the deadline fields: assumed at every read, required of every setter call.
//@ fieldinv ghost_expiresAt: v >= 0
//@ fieldinv ghost_refreshableAt: v >= 0
//@ fieldinv ghost_queueType: v <= 2

//@ iface Node.Key : C01 C03
//@   nopanic
//@   ensures [key] same(result, ghost_key(n))

//@ iface Node.Value : C01 C03
//@   nopanic
//@   ensures [value] same(result, ghost_value(n))

//@ iface Node.Prev : C01 C05
//@   nopanic
//@   requires [needs-size] ghost_hasSize()
//@   ensures [prev] result == ghost_prev(n)

//@ iface Node.SetPrev : C01 C05
//@   nopanic
//@   requires [needs-size] ghost_hasSize()
//@   modifies n.prev
//@   ensures [set-prev] ghost_prev(n) == v

//@ iface Node.Next : C01 C05
//@   nopanic
//@   requires [needs-size] ghost_hasSize()
//@   ensures [next] result == ghost_next(n)

//@ iface Node.SetNext : C01 C05
//@   nopanic
//@   requires [needs-size] ghost_hasSize()
//@   modifies n.next
//@   ensures [set-next] ghost_next(n) == v

//@ iface Node.PrevExp : C01 C13
//@   nopanic
//@   requires [needs-exp] ghost_hasExpLinks()
//@   ensures [prevExp] result == ghost_prevExp(n)

//@ iface Node.SetPrevExp : C01 C13
//@   nopanic
//@   requires [needs-exp] ghost_hasExpLinks()
//@   modifies n.prevExp
//@   ensures [set-prevExp] ghost_prevExp(n) == v

//@ iface Node.NextExp : C01 C13
//@   nopanic
//@   requires [needs-exp] ghost_hasExpLinks()
//@   ensures [nextExp] result == ghost_nextExp(n)

//@ iface Node.SetNextExp : C01 C13
//@   nopanic
//@   requires [needs-exp] ghost_hasExpLinks()
//@   modifies n.nextExp
//@   ensures [set-nextExp] ghost_nextExp(n) == v

//@ iface Node.HasExpired : C01 C03 C12
//@   nopanic
//@   ensures [C03:expired-iff-deadline-reached] result == (ghost_hasExp() && ghost_expiresAt(n) <= now)

//@ iface Node.ExpiresAt : C01 C03 C12
//@   nopanic
//@   requires [needs-exp] ghost_hasExp()
//@   ensures [expiresAt] result == ghost_expiresAt(n)

//@ iface Node.CASExpiresAt : C01 C03 C12
//@   nopanic
//@   requires [needs-exp] ghost_hasExp()
//@   requires [C12:never-in-the-past] new >= 0
//@   modifies n.expiresAt
//@   ensures [cas-result] result == (pre(ghost_expiresAt(n)) == old)
//@   ensures [cas-effect] (result ==> ghost_expiresAt(n) == new) && (!result ==> ghost_expiresAt(n) == pre(ghost_expiresAt(n)))

//@ iface Node.SetExpiresAt : C01 C03 C12
//@   nopanic
//@   requires [needs-exp] ghost_hasExp()
//@   requires [C12:never-in-the-past] new >= 0
//@   modifies n.expiresAt
//@   ensures [set-expiresAt] ghost_expiresAt(n) == new

//@ iface Node.RefreshableAt : C01 C11 C12
//@   nopanic
//@   requires [needs-refresh] ghost_hasRefresh()
//@   ensures [refreshableAt] result == ghost_refreshableAt(n)

//@ iface Node.CASRefreshableAt : C01 C11 C12
//@   nopanic
//@   requires [needs-refresh] ghost_hasRefresh()
//@   requires [C12:never-in-the-past] new >= 0
//@   modifies n.refreshableAt
//@   ensures [cas-result] result == (pre(ghost_refreshableAt(n)) == old)
//@   ensures [cas-effect] (result ==> ghost_refreshableAt(n) == new) && (!result ==> ghost_refreshableAt(n) == pre(ghost_refreshableAt(n)))

//@ iface Node.SetRefreshableAt : C01 C11 C12
//@   nopanic
//@   requires [needs-refresh] ghost_hasRefresh()
//@   requires [C12:never-in-the-past] new >= 0
//@   modifies n.refreshableAt
//@   ensures [set-refreshableAt] ghost_refreshableAt(n) == new

//@ iface Node.IsFresh : C01 C11 C12
//@   nopanic
//@   ensures [C11:fresh-iff-before-refresh-time] result == (!ghost_hasRefresh() || (specAlive(n) && ghost_refreshableAt(n) > now))

//@ iface Node.Weight : C01 C04 C07
//@   nopanic
//@   ensures [weight] (ghost_hasWeight() ==> result == ghost_weight(n)) && (!ghost_hasWeight() ==> result == 1)

//@ iface Node.IsAlive : C01 C03 C05
//@   nopanic
//@   ensures [alive] result == specAlive(n)

//@ iface Node.IsRetired : C01 C05
//@   nopanic
//@   requires [needs-state] ghost_hasState()
//@   ensures [retired] result == (ghost_state(n) == retiredState)

//@ iface Node.Retire : C01 C05
//@   nopanic
//@   requires [needs-state] ghost_hasState()
//@   modifies n.state
//@   ensures [retire] ghost_state(n) == retiredState

//@ iface Node.IsDead : C01 C05
//@   nopanic
//@   requires [needs-state] ghost_hasState()
//@   ensures [dead] result == (ghost_state(n) == deadState)

//@ iface Node.Die : C01 C05
//@   nopanic
//@   requires [needs-state] ghost_hasState()
//@   modifies n.state
//@   ensures [die] ghost_state(n) == deadState

//@ iface Node.GetQueueType : C01 C05
//@   nopanic
//@   requires [needs-size] ghost_hasSize()
//@   ensures [queueType] result == ghost_queueType(n)

//@ iface Node.SetQueueType : C01 C05
//@   nopanic
//@   requires [needs-size] ghost_hasSize()
//@   requires [queue-type-range] queueType <= 2
//@   modifies n.queueType
//@   ensures [set-queueType] ghost_queueType(n) == queueType

//@ iface Node.InWindow : C01 C05
//@   nopanic
//@   requires [needs-size] ghost_hasSize()
//@   ensures [inWindow] result == (ghost_queueType(n) == InWindowQueue)

//@ iface Node.MakeWindow : C01 C05
//@   nopanic
//@   requires [needs-size] ghost_hasSize()
//@   modifies n.queueType
//@   ensures [makeWindow] ghost_queueType(n) == InWindowQueue

//@ iface Node.InMainProbation : C01 C05
//@   nopanic
//@   requires [needs-size] ghost_hasSize()
//@   ensures [inProbation] result == (ghost_queueType(n) == InMainProbationQueue)

//@ iface Node.MakeMainProbation : C01 C05
//@   nopanic
//@   requires [needs-size] ghost_hasSize()
//@   modifies n.queueType
//@   ensures [makeProbation] ghost_queueType(n) == InMainProbationQueue

//@ iface Node.InMainProtected : C01 C05
//@   nopanic
//@   requires [needs-size] ghost_hasSize()
//@   ensures [inProtected] result == (ghost_queueType(n) == InMainProtectedQueue)

//@ iface Node.MakeMainProtected : C01 C05
//@   nopanic
//@   requires [needs-size] ghost_hasSize()
//@   modifies n.queueType
//@   ensures [makeProtected] ghost_queueType(n) == InMainProtectedQueue

//@ func (*Manager).Create : C01 C12 C03
//@   assumed the generated constructors NewB..NewBERW store their arguments (dispatch through a function value chosen by NewManager)
//@   fresh
//@   requires [C12:never-in-the-past] expiresAt >= 0 && refreshableAt >= 0
//@   ensures [create-fields] result != nil && same(ghost_key(result), key) && same(ghost_value(result), value)
//@   ensures [create-deadlines] (ghost_hasExp() ==> ghost_expiresAt(result) == expiresAt) && (ghost_hasRefresh() ==> ghost_refreshableAt(result) == refreshableAt)
//@   ensures [create-weight] ghost_hasWeight() ==> ghost_weight(result) == weight
//@   ensures [create-state] (ghost_hasState() ==> ghost_state(result) == aliveState) && (ghost_hasSize() ==> ghost_queueType(result) == InWindowQueue && ghost_prev(result) == nil && ghost_next(result) == nil)
//@   ensures [create-unlinked] ghost_hasExpLinks() ==> ghost_prevExp(result) == nil && ghost_nextExp(result) == nil

//@ func (*Manager).FromPointer : C05
//@   assumed the generated CastPointerTo* functions convert the pointer back to the node it was taken from (dispatch through a function value chosen by NewManager)
//@   ensures [round-trip] result != nil && result.AsPointer() == ptr
