//go:build verif

package queue

// The MPSC write buffer is outside the technique's reach (C16: interleavings of the CAS-reserve / publish
// protocol). Its producer operation gets an assumed contract over a ghost counter of accepted events.

func implies(a, b bool) bool { return !a || b }

// number of events accepted by the buffer so far
func ghost_queued() int { panic("ghost") }

// the buffer holds (owns) the event t
func ghost_buffered[T any](t *T) bool { panic("ghost") }

//@ func NewMPSC : C05 C06 C01
//@   assumed A-buffer (C16 is not applicable): creates an empty write buffer; the two capacities are package-level tunables of the cache computed at start-up and are not checked here
//@   fresh
//@   ensures [a-buffer-exists] result != nil

//@ func (*MPSC).TryPush : C05 C06 C04
//@   assumed C16 is not applicable; an accepted event is handed to the consumer exactly once
//@   modifies ghost_queued(), ghost_buffered(t)
//@   ensures [refused-event-stays-with-the-caller] !result ==> ghost_buffered(t) == pre(ghost_buffered(t))
//@   ensures [accepted-iff-true] (result ==> ghost_queued() == pre(ghost_queued()) + 1) && (!result ==> ghost_queued() == pre(ghost_queued()))

//@ func (*MPSC).TryPop : C05 C06
//@   assumed C16 is not applicable; returns nil (nothing buffered) or an event that was accepted by TryPush and not yet handed out

//@ func (*MPSC).Size : C05
//@   assumed C16 is not applicable
//@   ensures [size-nonneg] result >= 0

// ---------------------------------------------------------------------------------------------
// Bounded stand-in for the sequential content of A-buffer (NOT a proof, and nothing about interleavings - C16 stays
// not applicable): the real MPSC code is executed symbolically (`bodies`) for the smallest geometry
// (initial capacity 2, maximum capacity 4, so the queue grows once by linking a larger chunk) on one producer:
// five pushes of distinct events, then six pops. Expected: the first four pushes are accepted, the fifth is refused
// (the buffer holds its maximum number of events), the pops return the accepted events in push order, each once,
// and then nothing.
// ---------------------------------------------------------------------------------------------

func bFifo[T any](a, b, c, d, e *T) (p1, p2, p3, p4, p5 bool, r1, r2, r3, r4, r5, r6 *T, sz0, sz4 uint64) {
	q := NewMPSC[T](2, 4)
	sz0 = q.Size()
	p1 = q.TryPush(a)
	p2 = q.TryPush(b)
	p3 = q.TryPush(c)
	p4 = q.TryPush(d)
	p5 = q.TryPush(e)
	sz4 = q.Size()
	r1 = q.TryPop()
	r2 = q.TryPop()
	r3 = q.TryPop()
	r4 = q.TryPop()
	r5 = q.TryPop()
	r6 = q.TryPop()
	return
}

//@ func bFifo : C05 C06
//@   bounded one producer, capacity 2 growing to 4 (one chunk link): five pushes then six pops
//@   bodies
//@   requires a != nil && b != nil && c != nil && d != nil && e != nil
//@   requires a != b && a != c && a != d && a != e && b != c && b != d && b != e && c != d && c != e && d != e
//@   modifies *
//@   ensures [bounded:refused-only-when-full] p1 && p2 && p3 && p4 && !p5 && sz0 == 0 && sz4 == 4
//@   ensures [bounded:each-event-once-in-push-order-across-the-chunk-link] r1 == a && r2 == b && r3 == c && r4 == d && r5 == nil && r6 == nil

// the same geometry with the consumer in between: the indices wrap around the first chunk and cross the link
func bFifoInterleaved[T any](a, b, c, d, e, f *T) (p1, p2, p3, p4, p5, p6 bool, r1, r2, r3, r4, r5, r6 *T) {
	q := NewMPSC[T](2, 4)
	p1 = q.TryPush(a)
	p2 = q.TryPush(b)
	r1 = q.TryPop()
	p3 = q.TryPush(c)
	p4 = q.TryPush(d)
	p5 = q.TryPush(e)
	p6 = q.TryPush(f)
	r2 = q.TryPop()
	r3 = q.TryPop()
	r4 = q.TryPop()
	r5 = q.TryPop()
	r6 = q.TryPop()
	return
}

//@ func bFifoInterleaved : C05 C06
//@   bounded one producer and the consumer alternating, capacity 2 growing to 4: two pushes, one pop, four pushes, five pops
//@   bodies
//@   requires a != nil && b != nil && c != nil && d != nil && e != nil && f != nil
//@   requires a != b && a != c && a != d && a != e && a != f && b != c && b != d && b != e && b != f && c != d && c != e && c != f && d != e && d != f && e != f
//@   modifies *
//@   ensures [bounded:refused-only-when-full] p1 && p2 && p3 && p4 && p5 && !p6
//@   ensures [bounded:each-event-once-in-push-order-across-the-chunk-link] r1 == a && r2 == b && r3 == c && r4 == d && r5 == e && r6 == nil
