//go:build verif

package queue

// The MPSC write buffer is outside the technique's reach (C16: interleavings of the CAS-reserve / publish
// protocol). Its producer operation gets an assumed contract over a ghost counter of accepted events.

func implies(a, b bool) bool { return !a || b }

// number of events accepted by the buffer so far
func ghost_queued() int { panic("ghost") }

// the buffer holds (owns) the event t
func ghost_buffered[T any](t *T) bool { panic("ghost") }

//@ func (*MPSC).TryPush : C05 C06 C04
//@   assumed C16 is not applicable; an accepted event is handed to the consumer exactly once
//@   modifies ghost_queued(), ghost_buffered(t)
//@   ensures [refused-event-stays-with-the-caller] !result ==> ghost_buffered(t) == pre(ghost_buffered(t))
//@   ensures [accepted-iff-true] (result ==> ghost_queued() == pre(ghost_queued()) + 1) && (!result ==> ghost_queued() == pre(ghost_queued()))

//@ func (*MPSC).TryPop : C05 C06
//@   assumed C16 is not applicable; returns nil (nothing buffered) or an event that was accepted by TryPush and not yet handed out

//@ func (*MPSC).Size : C05
//@   assumed C16 is not applicable
//@   ensures [size-nonneg] result >= 0
