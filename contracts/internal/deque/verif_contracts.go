//go:build verif

package deque

import "github.com/maypok86/otter/v2/internal/generated/node"

// Assumed contracts of the intrusive doubly linked list over a ghost membership relation
// ghost_inDeque(d, n). The pointer manipulation behind them is NOT verified here (A-deque, see DESIGN §4):
// it needs an inductive list-segment invariant that the quantifier-free encoding cannot state.

func implies(a, b bool) bool { return !a || b }

func ghost_inDeque[K comparable, V any](d *Linked[K, V], n node.Node[K, V]) bool { panic("ghost") }

//@ macro LINKS = node::prev, node::next, node::prevExp, node::nextExp, d.head, d.tail, d.len

//@ func (*Linked).PushBack : C04 C05 C07
//@   assumed A-deque
//@   modifies ghost_inDeque(d, n), $LINKS
//@   ensures [linked] ghost_inDeque(d, n)

//@ func (*Linked).PushFront : C04 C05 C07
//@   assumed A-deque
//@   modifies ghost_inDeque(d, n), $LINKS
//@   ensures [linked] ghost_inDeque(d, n)

//@ func (*Linked).Delete : C04 C05 C07
//@   assumed A-deque (deleting a node that is not in the list is a no-op)
//@   modifies ghost_inDeque(d, n), $LINKS
//@   ensures [unlinked] !ghost_inDeque(d, n)

//@ func (*Linked).UpdateNode : C04 C05 C07
//@   assumed A-deque: n takes the place of old (if old was linked)
//@   modifies ghost_inDeque(d, n), ghost_inDeque(d, old), $LINKS
//@   ensures [transplanted] n != old ==> ghost_inDeque(d, n) == pre(ghost_inDeque(d, old)) && !ghost_inDeque(d, old)
//@   ensures [self-update-keeps] n == old ==> ghost_inDeque(d, n) == pre(ghost_inDeque(d, n))

//@ func (*Linked).Contains : C04 C05 C07
//@   assumed A-deque
//@   ensures [contains] result == ghost_inDeque(d, n)

//@ func (*Linked).NotContains : C04 C05 C07
//@   assumed A-deque
//@   ensures [not-contains] result == !ghost_inDeque(d, n)

//@ func (*Linked).MoveToBack : C04 C05 C07
//@   assumed A-deque
//@   modifies $LINKS

//@ func (*Linked).MoveToFront : C04 C05 C07
//@   assumed A-deque
//@   modifies $LINKS

//@ func (*Linked).PopFront : C04 C05 C07
//@   assumed A-deque
//@   modifies ghost_inDeque(d, *), $LINKS
//@   ensures [popped] result != nil ==> !ghost_inDeque(d, result)

//@ func (*Linked).Head : C04 C05 C07
//@   assumed A-deque
//@   ensures [head-is-member] result != nil ==> ghost_inDeque(d, result)

//@ func (*Linked).Len : C04 C05 C07
//@   assumed A-deque
//@   ensures [len-bounded] result >= 0 && result < 1<<40
