//go:build verif

package deque

import "github.com/maypok86/otter/v2/internal/generated/node"

// Assumed contracts of the intrusive doubly linked list over a ghost membership relation
// ghost_inDeque(d, n). The pointer manipulation behind them is NOT verified here (A-deque, see DESIGN §4):
// it needs an inductive list-segment invariant that the quantifier-free encoding cannot state.

func implies(a, b bool) bool { return !a || b }

func ghost_inDeque[K comparable, V any](d *Linked[K, V], n node.Node[K, V]) bool { panic("ghost") }

//@ macro LINKS = node::prev, node::next, node::prevExp, node::nextExp, d.head, d.tail, d.len

//@ func (*Linked).PushBack : C04 C05 C07
//@   assumed A-deque
//@   modifies ghost_inDeque(d, n), $LINKS
//@   ensures [linked] ghost_inDeque(d, n)

//@ func (*Linked).PushFront : C04 C05 C07
//@   assumed A-deque
//@   modifies ghost_inDeque(d, n), $LINKS
//@   ensures [linked] ghost_inDeque(d, n)

//@ func (*Linked).Delete : C04 C05 C07
//@   assumed A-deque (deleting a node that is not in the list is a no-op)
//@   modifies ghost_inDeque(d, n), $LINKS
//@   ensures [unlinked] !ghost_inDeque(d, n)

//@ func (*Linked).UpdateNode : C04 C05 C07
//@   assumed A-deque: n takes the place of old (if old was linked)
//@   modifies ghost_inDeque(d, n), ghost_inDeque(d, old), $LINKS
//@   ensures [transplanted] n != old ==> ghost_inDeque(d, n) == pre(ghost_inDeque(d, old)) && !ghost_inDeque(d, old)
//@   ensures [self-update-keeps] n == old ==> ghost_inDeque(d, n) == pre(ghost_inDeque(d, n))

//@ func (*Linked).Contains : C04 C05 C07
//@   assumed A-deque
//@   ensures [contains] result == ghost_inDeque(d, n)

//@ func (*Linked).NotContains : C04 C05 C07
//@   assumed A-deque
//@   ensures [not-contains] result == !ghost_inDeque(d, n)

//@ func (*Linked).MoveToBack : C04 C05 C07
//@   assumed A-deque
//@   modifies $LINKS

//@ func (*Linked).MoveToFront : C04 C05 C07
//@   assumed A-deque
//@   modifies $LINKS

//@ func (*Linked).PopFront : C04 C05 C07
//@   assumed A-deque
//@   modifies ghost_inDeque(d, *), $LINKS
//@   ensures [popped] result != nil ==> !ghost_inDeque(d, result)

//@ func (*Linked).Head : C04 C05 C07
//@   assumed A-deque
//@   ensures [head-is-member] result != nil ==> ghost_inDeque(d, result)

//@ func (*Linked).Len : C04 C05 C07
//@   assumed A-deque
//@   ensures [len-bounded] result >= 0 && result < 1<<40

// ---------------------------------------------------------------------------------------------
// Bounded stand-in for A-deque (NOT a proof): the real list code is executed symbolically, with the assumed
// contracts above switched off (`bodies`), on every list of at most three distinct nodes built by the real
// PushBack / PushFront, followed by one arbitrary operation. The harnesses are ordinary Go; the postcondition of
// each is that the representation is exactly the expected sequence.
// Bound: <= 3 nodes in the list (+ one outside node), one operation after construction, both link families.
// ---------------------------------------------------------------------------------------------

func ghost_hasSize() bool     { panic("ghost") }
func ghost_hasExpLinks() bool { panic("ghost") }

func nx[K comparable, V any](d *Linked[K, V], n node.Node[K, V]) node.Node[K, V] { return d.getNext(n) }
func pv[K comparable, V any](d *Linked[K, V], n node.Node[K, V]) node.Node[K, V] { return d.getPrev(n) }

func free[K comparable, V any](d *Linked[K, V], n node.Node[K, V]) bool {
	return node.Equals(pv(d, n), nil) && node.Equals(nx(d, n), nil)
}

// rep: d represents exactly the sequence s0..s(n-1)
func rep[K comparable, V any](d *Linked[K, V], s0, s1, s2, s3 node.Node[K, V], n int) bool {
	switch n {
	case 0:
		return d.head == nil && d.tail == nil && d.len == 0
	case 1:
		return d.head == s0 && d.tail == s0 && d.len == 1 && free(d, s0)
	case 2:
		return d.head == s0 && d.tail == s1 && d.len == 2 && pv(d, s0) == nil && nx(d, s0) == s1 && pv(d, s1) == s0 && nx(d, s1) == nil
	case 3:
		return d.head == s0 && d.tail == s2 && d.len == 3 && pv(d, s0) == nil && nx(d, s0) == s1 && pv(d, s1) == s0 && nx(d, s1) == s2 &&
			pv(d, s2) == s1 && nx(d, s2) == nil
	case 4:
		return d.head == s0 && d.tail == s3 && d.len == 4 && pv(d, s0) == nil && nx(d, s0) == s1 && pv(d, s1) == s0 && nx(d, s1) == s2 &&
			pv(d, s2) == s1 && nx(d, s2) == s3 && pv(d, s3) == s2 && nx(d, s3) == nil
	}
	return false
}

// build constructs the list (a, b, c)[:m] with the real code: by PushBack, or in reverse by PushFront
func build[K comparable, V any](isExp, front bool, a, b, c node.Node[K, V], m int) *Linked[K, V] {
	d := NewLinked[K, V](isExp)
	if front {
		if m >= 3 {
			d.PushFront(c)
		}
		if m >= 2 {
			d.PushFront(b)
		}
		if m >= 1 {
			d.PushFront(a)
		}
	} else {
		if m >= 1 {
			d.PushBack(a)
		}
		if m >= 2 {
			d.PushBack(b)
		}
		if m >= 3 {
			d.PushBack(c)
		}
	}
	return d
}

// pick returns the i-th of (a, b, c) or the outside node x
func pick[K comparable, V any](a, b, c, x node.Node[K, V], i int) node.Node[K, V] {
	switch i {
	case 0:
		return a
	case 1:
		return b
	case 2:
		return c
	}
	return x
}

// without: the sequence (a,b,c)[:m] with position i removed (i >= m: unchanged); returns the new elements and length
func without[K comparable, V any](a, b, c node.Node[K, V], m, i int) (node.Node[K, V], node.Node[K, V], node.Node[K, V], int) {
	if i >= m || i < 0 {
		return a, b, c, m
	}
	switch i {
	case 0:
		return b, c, nil, m - 1
	case 1:
		return a, c, nil, m - 1
	}
	return a, b, nil, m - 1
}

// ---- harnesses: construction + one operation with the real code; all checking is done by the postconditions

func bBuild[K comparable, V any](isExp, front bool, a, b, c node.Node[K, V], m int) *Linked[K, V] {
	return build(isExp, front, a, b, c, m)
}

func bPush[K comparable, V any](isExp, front, atFront bool, a, b, c, x node.Node[K, V], m int) *Linked[K, V] {
	d := build(isExp, front, a, b, c, m)
	if atFront {
		d.PushFront(x)
	} else {
		d.PushBack(x)
	}
	return d
}

func bDelete[K comparable, V any](isExp, front bool, a, b, c, x node.Node[K, V], m, i int) *Linked[K, V] {
	d := build(isExp, front, a, b, c, m)
	d.Delete(pick(a, b, c, x, i))
	return d
}

func bPopFront[K comparable, V any](isExp, front bool, a, b, c node.Node[K, V], m int) (*Linked[K, V], node.Node[K, V]) {
	d := build(isExp, front, a, b, c, m)
	r := d.PopFront()
	return d, r
}

func bMove[K comparable, V any](isExp, front, toFront bool, a, b, c node.Node[K, V], m, i int) *Linked[K, V] {
	d := build(isExp, front, a, b, c, m)
	if toFront {
		d.MoveToFront(pick(a, b, c, nil, i))
	} else {
		d.MoveToBack(pick(a, b, c, nil, i))
	}
	return d
}

func bUpdate[K comparable, V any](isExp, front bool, a, b, c, x node.Node[K, V], m, i int) *Linked[K, V] {
	d := build(isExp, front, a, b, c, m)
	d.UpdateNode(x, pick(a, b, c, nil, i))
	return d
}

// ---- expected results (specification side)

func okPush[K comparable, V any](d *Linked[K, V], atFront bool, a, b, c, x node.Node[K, V], m int) bool {
	if atFront {
		return rep(d, x, a, b, c, m+1) && d.Contains(x) && d.Head() == x
	}
	switch m {
	case 0:
		return rep(d, x, nil, nil, nil, 1) && d.Contains(x)
	case 1:
		return rep(d, a, x, nil, nil, 2) && d.Contains(x)
	case 2:
		return rep(d, a, b, x, nil, 3) && d.Contains(x)
	}
	return rep(d, a, b, c, x, 4) && d.Contains(x) && d.Tail() == x
}

func okDelete[K comparable, V any](d *Linked[K, V], a, b, c, x node.Node[K, V], m, i int) bool {
	n := pick(a, b, c, x, i)
	e0, e1, e2, en := without(a, b, c, m, i)
	return rep(d, e0, e1, e2, nil, en) && free(d, n) && d.NotContains(n) && d.Len() == en && d.IsEmpty() == (en == 0)
}

func okPopFront[K comparable, V any](d *Linked[K, V], r, a, b, c node.Node[K, V], m int) bool {
	if m == 0 {
		return r == nil && rep(d, nil, nil, nil, nil, 0)
	}
	e0, e1, e2, en := without(a, b, c, m, 0)
	return r == a && rep(d, e0, e1, e2, nil, en) && free(d, a) && d.NotContains(a)
}

func okMove[K comparable, V any](d *Linked[K, V], toFront bool, a, b, c node.Node[K, V], m, i int) bool {
	n := pick(a, b, c, nil, i)
	e0, e1, e2, en := without(a, b, c, m, i)
	if toFront {
		return rep(d, n, e0, e1, e2, en+1) && d.Contains(n)
	}
	switch en {
	case 0:
		return rep(d, n, nil, nil, nil, 1)
	case 1:
		return rep(d, e0, n, nil, nil, 2)
	}
	return rep(d, e0, e1, n, nil, 3) && d.Contains(n)
}

func okUpdate[K comparable, V any](d *Linked[K, V], a, b, c, x node.Node[K, V], m, i int) bool {
	old := pick(a, b, c, nil, i)
	switch i {
	case 0:
		return rep(d, x, b, c, nil, m) && free(d, old) && d.NotContains(old) && d.Contains(x)
	case 1:
		return rep(d, a, x, c, nil, m) && free(d, old) && d.NotContains(old) && d.Contains(x)
	}
	return rep(d, a, b, x, nil, m) && free(d, old) && d.NotContains(old) && d.Contains(x)
}


//@ func bBuild : C05
//@   bounded lists of at most 3 nodes built by PushBack, or in reverse by PushFront
//@   bodies
//@   var x node.Node[K, V]
//@   requires a != nil
//@   requires b != nil
//@   requires c != nil
//@   requires x != nil
//@   requires a != b
//@   requires a != c
//@   requires a != x
//@   requires b != c
//@   requires b != x
//@   requires c != x
//@   requires m >= 0
//@   requires m <= 3
//@   requires ghost_hasSize()
//@   requires ghost_hasExpLinks()
//@   requires a.Prev() == nil
//@   requires a.Next() == nil
//@   requires a.PrevExp() == nil
//@   requires a.NextExp() == nil
//@   requires b.Prev() == nil
//@   requires b.Next() == nil
//@   requires b.PrevExp() == nil
//@   requires b.NextExp() == nil
//@   requires c.Prev() == nil
//@   requires c.Next() == nil
//@   requires c.PrevExp() == nil
//@   requires c.NextExp() == nil
//@   requires x.Prev() == nil
//@   requires x.Next() == nil
//@   requires x.PrevExp() == nil
//@   requires x.NextExp() == nil
//@   modifies *
//@   ensures [bounded:construction-yields-the-sequence] rep(result, a, b, c, nil, m)
//@   ensures [bounded:construction-length-and-membership] result.Len() == m && (m >= 1 ==> result.Contains(a) && result.Head() == a)
//@   ensures [bounded:outside-node-not-contained] result.NotContains(x)

//@ func bPush : C05
//@   bounded lists of at most 3 nodes, one PushBack / PushFront after construction
//@   bodies
//@   requires a != nil
//@   requires b != nil
//@   requires c != nil
//@   requires x != nil
//@   requires a != b
//@   requires a != c
//@   requires a != x
//@   requires b != c
//@   requires b != x
//@   requires c != x
//@   requires m >= 0
//@   requires m <= 3
//@   requires ghost_hasSize()
//@   requires ghost_hasExpLinks()
//@   requires a.Prev() == nil
//@   requires a.Next() == nil
//@   requires a.PrevExp() == nil
//@   requires a.NextExp() == nil
//@   requires b.Prev() == nil
//@   requires b.Next() == nil
//@   requires b.PrevExp() == nil
//@   requires b.NextExp() == nil
//@   requires c.Prev() == nil
//@   requires c.Next() == nil
//@   requires c.PrevExp() == nil
//@   requires c.NextExp() == nil
//@   requires x.Prev() == nil
//@   requires x.Next() == nil
//@   requires x.PrevExp() == nil
//@   requires x.NextExp() == nil
//@   modifies *
//@   ensures [bounded:push-appends-or-prepends] okPush(result, atFront, a, b, c, x, m)

//@ func bDelete : C05
//@   bounded lists of at most 3 nodes, Delete of any member or of an outside node
//@   bodies
//@   requires a != nil
//@   requires b != nil
//@   requires c != nil
//@   requires x != nil
//@   requires a != b
//@   requires a != c
//@   requires a != x
//@   requires b != c
//@   requires b != x
//@   requires c != x
//@   requires m >= 0
//@   requires m <= 3
//@   requires ghost_hasSize()
//@   requires ghost_hasExpLinks()
//@   requires a.Prev() == nil
//@   requires a.Next() == nil
//@   requires a.PrevExp() == nil
//@   requires a.NextExp() == nil
//@   requires b.Prev() == nil
//@   requires b.Next() == nil
//@   requires b.PrevExp() == nil
//@   requires b.NextExp() == nil
//@   requires c.Prev() == nil
//@   requires c.Next() == nil
//@   requires c.PrevExp() == nil
//@   requires c.NextExp() == nil
//@   requires x.Prev() == nil
//@   requires x.Next() == nil
//@   requires x.PrevExp() == nil
//@   requires x.NextExp() == nil
//@   requires i >= 0
//@   requires i <= 3
//@   modifies *
//@   ensures [bounded:delete-removes-exactly-that-node] okDelete(result, a, b, c, x, m, i)

//@ func bPopFront : C05
//@   bounded lists of at most 3 nodes
//@   bodies
//@   var x node.Node[K, V]
//@   requires a != nil
//@   requires b != nil
//@   requires c != nil
//@   requires x != nil
//@   requires a != b
//@   requires a != c
//@   requires a != x
//@   requires b != c
//@   requires b != x
//@   requires c != x
//@   requires m >= 0
//@   requires m <= 3
//@   requires ghost_hasSize()
//@   requires ghost_hasExpLinks()
//@   requires a.Prev() == nil
//@   requires a.Next() == nil
//@   requires a.PrevExp() == nil
//@   requires a.NextExp() == nil
//@   requires b.Prev() == nil
//@   requires b.Next() == nil
//@   requires b.PrevExp() == nil
//@   requires b.NextExp() == nil
//@   requires c.Prev() == nil
//@   requires c.Next() == nil
//@   requires c.PrevExp() == nil
//@   requires c.NextExp() == nil
//@   requires x.Prev() == nil
//@   requires x.Next() == nil
//@   requires x.PrevExp() == nil
//@   requires x.NextExp() == nil
//@   modifies *
//@   ensures [bounded:popfront-removes-the-head] okPopFront(r0, r1, a, b, c, m)

//@ func bMove : C05
//@   bounded lists of at most 3 nodes, MoveToFront / MoveToBack of any member
//@   bodies
//@   var x node.Node[K, V]
//@   requires a != nil
//@   requires b != nil
//@   requires c != nil
//@   requires x != nil
//@   requires a != b
//@   requires a != c
//@   requires a != x
//@   requires b != c
//@   requires b != x
//@   requires c != x
//@   requires m >= 0
//@   requires m <= 3
//@   requires ghost_hasSize()
//@   requires ghost_hasExpLinks()
//@   requires a.Prev() == nil
//@   requires a.Next() == nil
//@   requires a.PrevExp() == nil
//@   requires a.NextExp() == nil
//@   requires b.Prev() == nil
//@   requires b.Next() == nil
//@   requires b.PrevExp() == nil
//@   requires b.NextExp() == nil
//@   requires c.Prev() == nil
//@   requires c.Next() == nil
//@   requires c.PrevExp() == nil
//@   requires c.NextExp() == nil
//@   requires x.Prev() == nil
//@   requires x.Next() == nil
//@   requires x.PrevExp() == nil
//@   requires x.NextExp() == nil
//@   requires i >= 0
//@   requires i < m
//@   modifies *
//@   ensures [bounded:move-keeps-the-other-nodes-in-order] okMove(result, toFront, a, b, c, m, i)

//@ func bUpdate : C05
//@   bounded lists of at most 3 nodes, UpdateNode replacing any member by an outside node
//@   bodies
//@   requires a != nil
//@   requires b != nil
//@   requires c != nil
//@   requires x != nil
//@   requires a != b
//@   requires a != c
//@   requires a != x
//@   requires b != c
//@   requires b != x
//@   requires c != x
//@   requires m >= 0
//@   requires m <= 3
//@   requires ghost_hasSize()
//@   requires ghost_hasExpLinks()
//@   requires a.Prev() == nil
//@   requires a.Next() == nil
//@   requires a.PrevExp() == nil
//@   requires a.NextExp() == nil
//@   requires b.Prev() == nil
//@   requires b.Next() == nil
//@   requires b.PrevExp() == nil
//@   requires b.NextExp() == nil
//@   requires c.Prev() == nil
//@   requires c.Next() == nil
//@   requires c.PrevExp() == nil
//@   requires c.NextExp() == nil
//@   requires x.Prev() == nil
//@   requires x.Next() == nil
//@   requires x.PrevExp() == nil
//@   requires x.NextExp() == nil
//@   requires i >= 0
//@   requires i < m
//@   modifies *
//@   ensures [bounded:update-transplants-in-place] okUpdate(result, a, b, c, x, m, i)

// ---------------------------------------------------------------------------------------------
// Unbounded proofs of the list's pointer code (lists of every length, both link families). The real methods are
// executed (`bodies`: the assumed contracts above are switched off) from an arbitrary heap in which the list's ends
// and the nodes the operation touches are consistently linked. The postconditions give the exact new links, ends and
// length, and say that every other node (an arbitrary mstar) keeps its links and its consistency.
// What the local preconditions cannot carry from one operation to the next is that len counts the linked nodes
// (lenCounts / "at least two members" below): that part of A-deque stays with the bounded stand-ins above, as does the
// meaning of the abstract relation ghost_inDeque.
// ---------------------------------------------------------------------------------------------

// dqOK(d, m): the neighbours of m (in d's link family) point back at m
func dqOK[K comparable, V any](d *Linked[K, V], m node.Node[K, V]) bool {
	a, b := nx(d, m), pv(d, m)
	return (a == nil || pv(d, a) == m) && (b == nil || nx(d, b) == m)
}

// endsOK(d): head and tail are both nil or both set, they are the open ends, the length is sane
func endsOK[K comparable, V any](d *Linked[K, V]) bool {
	return (d.head == nil) == (d.tail == nil) && (d.head == nil || pv(d, d.head) == nil) && (d.tail == nil || nx(d, d.tail) == nil) &&
		d.len >= 0 && d.len < 1<<40
}

// lenCounts(d): the part of "len is the number of linked nodes" that the operations branch on
func lenCounts[K comparable, V any](d *Linked[K, V]) bool {
	return (d.len == 0) == (d.head == nil) && (d.len == 1) == (d.head != nil && d.head == d.tail)
}

// inThis(d, n): the open ends of n are the ends of d (n is linked into d, not into another list of the family)
func inThis[K comparable, V any](d *Linked[K, V], n node.Node[K, V]) bool {
	return (pv(d, n) != nil || d.head == n) && (nx(d, n) != nil || d.tail == n)
}

// nbOK(d, n): n and its two neighbours are consistently linked, n is not its own neighbour
func nbOK[K comparable, V any](d *Linked[K, V], n node.Node[K, V]) bool {
	return dqOK(d, n) && nx(d, n) != n && pv(d, n) != n && (nx(d, n) == nil || dqOK(d, nx(d, n))) && (pv(d, n) == nil || dqOK(d, pv(d, n)))
}

// unlinked(d, n): n has no links and is neither end of d
func unlinked[K comparable, V any](d *Linked[K, V], n node.Node[K, V]) bool {
	return free(d, n) && d.head != n && d.tail != n
}

func sameLinks[K comparable, V any](d *Linked[K, V], m, a, b node.Node[K, V]) bool {
	return nx(d, m) == a && pv(d, m) == b
}

func pPushBack[K comparable, V any](d *Linked[K, V], n node.Node[K, V])        { d.PushBack(n) }
func pPushFront[K comparable, V any](d *Linked[K, V], n node.Node[K, V])       { d.PushFront(n) }
func pDeleteNode[K comparable, V any](d *Linked[K, V], n node.Node[K, V])      { d.Delete(n) }
func pPopFrontNode[K comparable, V any](d *Linked[K, V]) node.Node[K, V]       { return d.PopFront() }
func pMoveToFront[K comparable, V any](d *Linked[K, V], n node.Node[K, V])     { d.MoveToFront(n) }
func pMoveToBack[K comparable, V any](d *Linked[K, V], n node.Node[K, V])      { d.MoveToBack(n) }
func pUpdateNode[K comparable, V any](d *Linked[K, V], n, old node.Node[K, V]) { d.UpdateNode(n, old) }
func pContains[K comparable, V any](d *Linked[K, V], n node.Node[K, V]) bool   { return d.Contains(n) }

//@ macro PLINKS = node::prev, node::next, node::prevExp, node::nextExp, d.head, d.tail, d.len
//@ macro PPRE = ghost_hasSize() && ghost_hasExpLinks() && d != nil && n != nil && mstar != nil && endsOK(d)

//@ func pPushBack : C04 C05 C07
//@   bodies
//@   var mstar node.Node[K, V]
//@   requires $PPRE && lenCounts(d) && unlinked(d, n) && d.len < 1<<40-1
//@   requires [tail-consistent] d.tail == nil || dqOK(d, d.tail)
//@   modifies $PLINKS
//@   ensures [C05:appended-at-the-tail] d.tail == n && nx(d, n) == nil && pv(d, n) == pre(d.tail) && (pre(d.tail) == nil || nx(d, pre(d.tail)) == n) && d.len == pre(d.len)+1
//@   ensures [C05:head-kept-unless-empty] (pre(d.head) == nil ==> d.head == n) && (pre(d.head) != nil ==> d.head == pre(d.head))
//@   ensures [C05:list-stays-well-formed] endsOK(d) && dqOK(d, n) && inThis(d, n) && (d.len == 0) == (d.head == nil)
//@   ensures [C05:every-other-node-stays-consistently-linked] mstar != n && pre(dqOK(d, mstar)) ==> dqOK(d, mstar)
//@   ensures [C05:no-other-node-is-touched] mstar != n && mstar != pre(d.tail) ==> sameLinks(d, mstar, pre(nx(d, mstar)), pre(pv(d, mstar)))

//@ func pPushFront : C04 C05 C07
//@   bodies
//@   var mstar node.Node[K, V]
//@   requires $PPRE && lenCounts(d) && unlinked(d, n) && d.len < 1<<40-1
//@   requires [head-consistent] d.head == nil || dqOK(d, d.head)
//@   modifies $PLINKS
//@   ensures [C05:prepended-at-the-head] d.head == n && pv(d, n) == nil && nx(d, n) == pre(d.head) && (pre(d.head) == nil || pv(d, pre(d.head)) == n) && d.len == pre(d.len)+1
//@   ensures [C05:tail-kept-unless-empty] (pre(d.tail) == nil ==> d.tail == n) && (pre(d.tail) != nil ==> d.tail == pre(d.tail))
//@   ensures [C05:list-stays-well-formed] endsOK(d) && dqOK(d, n) && inThis(d, n) && (d.len == 0) == (d.head == nil)
//@   ensures [C05:every-other-node-stays-consistently-linked] mstar != n && pre(dqOK(d, mstar)) ==> dqOK(d, mstar)
//@   ensures [C05:no-other-node-is-touched] mstar != n && mstar != pre(d.head) ==> sameLinks(d, mstar, pre(nx(d, mstar)), pre(pv(d, mstar)))

//@ func pDeleteNode : C04 C05 C07
//@   bodies
//@   var mstar node.Node[K, V]
//@   requires $PPRE && nbOK(d, n)
//@   requires [linked-here-or-not-at-all] unlinked(d, n) || (inThis(d, n) && d.len >= 1)
//@   modifies $PLINKS
//@   ensures [C05:unlinked] free(d, n) && d.head != n && d.tail != n
//@   ensures [C05:neighbours-are-joined] (pre(pv(d, n)) == nil || nx(d, pre(pv(d, n))) == pre(nx(d, n))) && (pre(nx(d, n)) == nil || pv(d, pre(nx(d, n))) == pre(pv(d, n)))
//@   ensures [C05:ends-follow] pre(inThis(d, n)) ==> d.len == pre(d.len)-1 && (pre(pv(d, n)) == nil ==> d.head == pre(nx(d, n))) && (pre(pv(d, n)) != nil ==> d.head == pre(d.head)) && (pre(nx(d, n)) == nil ==> d.tail == pre(pv(d, n))) && (pre(nx(d, n)) != nil ==> d.tail == pre(d.tail))
//@   ensures [C05:deleting-an-unlinked-node-changes-nothing] pre(unlinked(d, n)) ==> d.len == pre(d.len) && d.head == pre(d.head) && d.tail == pre(d.tail) && sameLinks(d, mstar, pre(nx(d, mstar)), pre(pv(d, mstar)))
//@   ensures [C05:list-stays-well-formed] endsOK(d)
//@   ensures [C05:every-other-node-stays-consistently-linked] mstar != n && pre(dqOK(d, mstar)) ==> dqOK(d, mstar)
//@   ensures [C05:no-other-node-is-touched] mstar != n && mstar != pre(pv(d, n)) && mstar != pre(nx(d, n)) ==> sameLinks(d, mstar, pre(nx(d, mstar)), pre(pv(d, mstar)))

//@ func pPopFrontNode : C04 C05 C07
//@   bodies
//@   var mstar node.Node[K, V]
//@   requires ghost_hasSize() && ghost_hasExpLinks() && d != nil && mstar != nil && endsOK(d) && lenCounts(d)
//@   requires [head-consistent] d.head == nil || (nbOK(d, d.head) && inThis(d, d.head))
//@   modifies $PLINKS
//@   ensures [C05:pops-the-head] result == pre(d.head) && (result != nil ==> free(d, result) && d.head == pre(nx(d, d.head)) && d.len == pre(d.len)-1 && d.head != result)
//@   ensures [C05:empty-list-pops-nothing] pre(d.head) == nil ==> result == nil && d.len == pre(d.len) && d.head == nil
//@   ensures [C05:list-stays-well-formed] endsOK(d)
//@   ensures [C05:every-other-node-stays-consistently-linked] mstar != pre(d.head) && pre(dqOK(d, mstar)) ==> dqOK(d, mstar)

//@ func pMoveToFront : C04 C05 C07
//@   bodies
//@   var mstar node.Node[K, V]
//@   requires $PPRE && nbOK(d, n) && inThis(d, n) && lenCounts(d)
//@   requires [len-counts-the-members] n != d.head ==> d.len >= 2
//@   requires [head-consistent] d.head == nil || dqOK(d, d.head)
//@   modifies $PLINKS
//@   ensures [C05:moved-to-the-head] d.head == n && pv(d, n) == nil && d.len == pre(d.len) && (pre(d.head) != n ==> nx(d, n) == pre(d.head) && pv(d, pre(d.head)) == n)
//@   ensures [C05:the-gap-is-closed] pre(d.head) != n ==> nx(d, pre(pv(d, n))) == pre(nx(d, n)) && (pre(nx(d, n)) == nil || pv(d, pre(nx(d, n))) == pre(pv(d, n)))
//@   ensures [C04:tail-follows-when-the-last-node-moves] pre(d.head) != n ==> (pre(d.tail) == n ==> d.tail == pre(pv(d, n))) && (pre(d.tail) != n ==> d.tail == pre(d.tail))
//@   ensures [C05:list-stays-well-formed] endsOK(d) && dqOK(d, n) && inThis(d, n)
//@   ensures [C05:every-other-node-stays-consistently-linked] mstar != n && pre(dqOK(d, mstar)) ==> dqOK(d, mstar)

//@ func pMoveToBack : C04 C05 C07
//@   bodies
//@   var mstar node.Node[K, V]
//@   requires $PPRE && nbOK(d, n) && inThis(d, n) && lenCounts(d)
//@   requires [len-counts-the-members] n != d.tail ==> d.len >= 2
//@   requires [tail-consistent] d.tail == nil || dqOK(d, d.tail)
//@   modifies $PLINKS
//@   ensures [C05:moved-to-the-tail] d.tail == n && nx(d, n) == nil && d.len == pre(d.len) && (pre(d.tail) != n ==> pv(d, n) == pre(d.tail) && nx(d, pre(d.tail)) == n)
//@   ensures [C05:the-gap-is-closed] pre(d.tail) != n ==> pv(d, pre(nx(d, n))) == pre(pv(d, n)) && (pre(pv(d, n)) == nil || nx(d, pre(pv(d, n))) == pre(nx(d, n)))
//@   ensures [C04:head-follows-when-the-first-node-moves] pre(d.tail) != n ==> (pre(d.head) == n ==> d.head == pre(nx(d, n))) && (pre(d.head) != n ==> d.head == pre(d.head))
//@   ensures [C05:list-stays-well-formed] endsOK(d) && dqOK(d, n) && inThis(d, n)
//@   ensures [C05:every-other-node-stays-consistently-linked] mstar != n && pre(dqOK(d, mstar)) ==> dqOK(d, mstar)

//@ func pUpdateNode : C04 C05 C07
//@   bodies
//@   var mstar node.Node[K, V]
//@   requires $PPRE && old != nil && n != old && unlinked(d, n) && nbOK(d, old)
//@   requires [linked-here-or-not-at-all] unlinked(d, old) || inThis(d, old)
//@   modifies $PLINKS
//@   ensures [C05:the-new-node-takes-the-place-of-the-old-one] pre(inThis(d, old)) ==> sameLinks(d, n, pre(nx(d, old)), pre(pv(d, old))) && (pre(nx(d, old)) == nil || pv(d, pre(nx(d, old))) == n) && (pre(pv(d, old)) == nil || nx(d, pre(pv(d, old))) == n) && (pre(d.head) == old ==> d.head == n) && (pre(d.head) != old ==> d.head == pre(d.head)) && (pre(d.tail) == old ==> d.tail == n) && (pre(d.tail) != old ==> d.tail == pre(d.tail))
//@   ensures [C05:the-old-node-is-unlinked] free(d, old) && d.head != old && d.tail != old && d.len == pre(d.len)
//@   ensures [C05:an-unlinked-old-node-is-not-replaced] pre(unlinked(d, old)) ==> free(d, n) && d.head == pre(d.head) && d.tail == pre(d.tail)
//@   ensures [C05:list-stays-well-formed] endsOK(d) && dqOK(d, n)
//@   ensures [C05:every-other-node-stays-consistently-linked] mstar != n && mstar != old && pre(dqOK(d, mstar)) ==> dqOK(d, mstar)

//@ func pContains : C04 C05 C07
//@   bodies
//@   requires ghost_hasSize() && ghost_hasExpLinks() && d != nil && n != nil
//@   ensures [C05:contains-reads-the-links] result == (pv(d, n) != nil || nx(d, n) != nil || d.head == n)
