#!/bin/sh
# usage: ./check.sh <property id> [quick|thorough]
# Rebuilds nothing from a cache: govc reloads /repo's current working tree (VERIF_REPO overrides) on every run.
cd "$(dirname "$0")" || exit 2
export GOFLAGS=-mod=mod GOPROXY=off
[ -x bin/govc ] || ./setup.sh >/dev/null 2>&1 || { echo "setup failed"; exit 2; }
exec ./bin/govc check -prop "$1" -tier "${2:-${VERIF_TIER:-quick}}"
