#!/usr/bin/env python3
# Regenerates MANIFEST.json from claims.json (kept small so the manifest is valid at all times).
import json
claims = json.load(open('/verif/claims.json'))
props = [json.loads(l) for l in open('/verif/properties.jsonl')]
checks, na = [], []
for p in props:
    c = claims.get(p['id'])
    if c and c.get('claimed'):
        checks.append({"property_id": p['id'], "quick_cmd": "./check.sh %s quick" % p['id'], "thorough_cmd": "./check.sh %s thorough" % p['id'],
            "evidence_file": "/verif/evidence/%s.json" % p['id'], "replay_cmd_template": "./bin/govc replay {path}", "engine": "govc",
            "level_claimed": {"category": "proof", "text": c['text'], "design_ref": c.get('design_ref', 'DESIGN.md §5')},
            "level_note": c['note'], "technique": c.get('technique', "contract-based deductive verification: weakest-precondition style VC generation over go/ssa of the real functions, obligations discharged by z3/cvc5")})
    else:
        na.append({"property_id": p['id'], "reason": (c or {}).get('reason', "check not built yet; see DESIGN.md")})
hooks = json.load(open('/verif/hooks.json'))
m = {"version": 1, "setup_cmd": "./setup.sh", "hooks": hooks,
     "engines": [{"name": "govc", "path": "/verif/govc", "serves_properties": [c['property_id'] for c in checks],
                  "kind_free_text": "contract-based deductive verifier for Go written for this task: contracts as //@ comment blocks in verif_contracts.go files (build tag verif), clause functions type-checked by go/types, symbolic execution of go/ssa with bit-vector semantics, obligations raced on z3 5.1.0 / z3 4.8.12 / cvc5 1.0.3, counterexamples replayed on the real code with go test -overlay"}],
     "checks": checks, "not_applicable": na,
     "notes": "One technique family only (contracts + deductive verification of the real code). See DESIGN.md for the approach, trusted base, findings and the seeded-change corpus."}
json.dump(m, open('/verif/MANIFEST.json', 'w'), indent=1)
print(len(checks), "claimed;", len(na), "not claimed")
