package main

import (
	"flag"
	"fmt"
	"os"
	"path/filepath"
	"sort"
	"strconv"
	"strings"
	"time"
)

func envOr(k, d string) string {
	if v := os.Getenv(k); v != "" {
		return v
	}
	return d
}

func main() {
	if len(os.Args) < 2 {
		fmt.Fprintln(os.Stderr, "usage: govc verify|check|expect|replay|synth ...")
		os.Exit(2)
	}
	cmd := os.Args[1]
	fs := flag.NewFlagSet(cmd, flag.ExitOnError)
	repo := fs.String("repo", envOr("VERIF_REPO", "/repo"), "repository root")
	verifDir := fs.String("verif", envOr("VERIF_DIR", "/verif"), "verification directory")
	prop := fs.String("prop", "", "property id")
	tier := fs.String("tier", envOr("VERIF_TIER", "quick"), "quick|thorough")
	fn := fs.String("func", "", "substring filter on contract targets (verify)")
	verbose := fs.Bool("v", false, "verbose")
	dump := fs.String("dump", "", "directory for SMT scripts of failed obligations")
	mode := fs.String("mode", "", "restrict to one mode")
	_ = fs.Parse(os.Args[2:])
	seed, _ := strconv.Atoi(envOr("VERIF_SEED", "0"))

	switch cmd {
	case "replay":
		os.Exit(replayCmd(fs.Args(), *repo, *verifDir))
	}
	t0 := time.Now()
	w, err := loadWorld(*repo, *verifDir)
	if err != nil {
		fmt.Fprintln(os.Stderr, "govc: load failed:", err)
		if cmd == "check" {
			os.Exit(loadFailure(*prop, *tier, seed, *verifDir, err))
		}
		os.Exit(2)
	}
	loadMs := time.Since(t0).Milliseconds()
	opts := &runOpts{budgetS: 10, dumpDir: *dump, seed: seed, verbose: *verbose}
	if *tier == "thorough" {
		opts.budgetS = 30
		opts.twins = true
		opts.allAgree = true
		opts.thorough = true
	}
	switch cmd {
	case "synth":
		var ks []string
		for k := range w.synthSrc {
			ks = append(ks, k)
		}
		sort.Strings(ks)
		for _, k := range ks {
			fmt.Printf("// ===== %s\n%s\n", k, w.synthSrc[k])
		}
	case "coverage":
		coverageCmd(w)
	case "verify":
		bad := 0
		for _, c := range w.all {
			if *fn != "" && !strings.Contains(c.Target, *fn) {
				continue
			}
			if *prop != "" && !c.HasProp(*prop) {
				continue
			}
			for _, r := range w.verifyContract(c, *mode, opts) {
				bad += printFnResult(r, *verbose)
			}
		}
		fmt.Printf("load+ssa %d ms, total %d ms, %d problem(s)\n", loadMs, time.Since(t0).Milliseconds(), bad)
		if bad > 0 {
			os.Exit(1)
		}
	case "check", "expect":
		if *prop == "" {
			fmt.Fprintln(os.Stderr, "govc: -prop required")
			os.Exit(2)
		}
		os.Exit(checkCmd(w, *prop, *tier, seed, opts, cmd == "expect", loadMs, t0))
	default:
		fmt.Fprintln(os.Stderr, "unknown command", cmd)
		os.Exit(2)
	}
}

// verifyContract runs every mode (and, for interface contracts, every implementing type).
func (w *world) verifyContract(c *Contract, onlyMode string, opts *runOpts) []*fnResult {
	var out []*fnResult
	if c.Flags["assumed"] {
		return nil
	}
	if c.Flags["thorough-only"] && (opts == nil || !opts.thorough) {
		return nil // expensive bounded harnesses run in the thorough tier (and in `verify -tier thorough`)
	}
	if c.Kind == "iface" {
		for _, impl := range w.implementers(c) {
			out = append(out, w.verifyFunc(c, impl.fn, "seq", impl.named, opts))
		}
		return out
	}
	if c.PerVariant != "" {
		sp := w.ssaPkgs[c.PkgPath]
		probe := &Contract{PkgPath: c.PkgPath, Target: "Node.Key", Kind: "iface"}
		for _, impl := range w.implementers(probe) {
			f := sp.Func(c.PerVariant + impl.named.Obj().Name())
			if c.PerVariant == "self" {
				// the function itself, once under the feature flags of every variant; the clauses can name the variant's
				// constructor and cast function as variantNew / variantCast
				f = w.ssaFunc(c)
			}
			if f == nil {
				out = append(out, &fnResult{Con: c, Mode: "seq", Variant: impl.named.Obj().Name(), Err: "no function " + c.PerVariant + impl.named.Obj().Name()})
				continue
			}
			out = append(out, w.verifyFunc(c, f, "seq", impl.named, opts))
		}
		if len(out) == 0 {
			out = append(out, &fnResult{Con: c, Mode: "seq", Err: "per-variant: no node variants found"})
		}
		return out
	}
	fn := w.ssaFunc(c)
	for _, m := range c.Modes {
		if onlyMode != "" && m != onlyMode {
			continue
		}
		out = append(out, w.verifyFunc(c, fn, m, nil, opts))
	}
	return out
}

func printFnResult(r *fnResult, verbose bool) int {
	bad := 0
	name := r.Con.Target
	if r.Variant != "" {
		name = r.Variant + ":" + name
	}
	if r.Skipped != "" {
		return 0
	}
	if r.Err != "" {
		fmt.Printf("%-44s [%s] NOT GENERATED: %s\n", name, r.Mode, r.Err)
		return 1
	}
	n, d := 0, 0
	for _, o := range r.Obls {
		if o.Kind == "cover" || o.Kind == "path-cover" {
			if o.Status == "vacuous" {
				bad++
			}
			continue
		}
		n++
		if o.Status == "discharged" {
			d++
		} else {
			bad++
		}
	}
	fmt.Printf("%-44s [%s] paths=%d obligations=%d discharged=%d gen=%dms\n", name, r.Mode, r.Paths, n, d, r.GenMs)
	for _, o := range r.Obls {
		if verbose || (o.Status != "discharged" && o.Status != "covered") {
			extra := ""
			if o.Status == "failed" {
				var ks []string
				for k := range o.Model {
					ks = append(ks, k)
				}
				sort.Strings(ks)
				for _, k := range ks {
					extra += " " + k + "=" + o.Model[k]
				}
				extra += "  sig=" + strings.Join(o.Sig, ",")
			}
			if o.Status == "undecided" {
				extra = " " + o.SolverO
			}
			fmt.Printf("    %-70s %-11s %-7s %5dms%s\n", o.Name, o.Status, o.Solver, o.Ms, extra)
		}
	}
	return bad
}

func mustMkdir(p string) { _ = os.MkdirAll(p, 0o755) }

var _ = filepath.Join
