package main

// Loading: contract files (mirror under /verif/contracts, overlaid on the repository), two-pass
// packages.Load (types first, then with the generated clause functions), SSA construction.

import (
	"bytes"
	"fmt"
	"go/token"
	"go/types"
	"os"
	"path/filepath"
	"sort"
	"strings"

	"golang.org/x/tools/go/packages"
	"golang.org/x/tools/go/ssa"
	"golang.org/x/tools/go/ssa/ssautil"
)

type world struct {
	repo      string
	verifDir  string
	fset      *token.FileSet
	pkgs      []*packages.Package
	prog      *ssa.Program
	ssaPkgs   map[string]*ssa.Package
	files     []*ContractFile
	all       []*Contract
	contracts map[string]*Contract // function contracts by fnKey
	ifaceCons map[string]*Contract // "pkgpath.Iface.method"
	immutable map[string]bool
	itfKeys   []string
	synthSrc  map[string]string
	globals   map[string][]uint64
	mirrorMsg []string
	fieldInv  map[string]*FieldInvRef

	counted      map[string]bool
	reach        map[*Contract]map[string]bool
	byMethodName map[string][]*ssa.Function

	fieldCallHook func(x *ctx, st *state, fr *frame, fnv val, args []val, rt types.Type) ([]outcome, bool)
}

type FieldInvRef struct {
	fi  *FieldInv
	pkg string
}

const modulePath = "github.com/maypok86/otter/v2"

func loadWorld(repo, verifDir string) (*world, error) {
	w := &world{repo: repo, verifDir: verifDir, contracts: map[string]*Contract{}, ifaceCons: map[string]*Contract{}, ssaPkgs: map[string]*ssa.Package{},
		immutable: map[string]bool{}, synthSrc: map[string]string{}, globals: map[string][]uint64{}}
	cdir := filepath.Join(verifDir, "contracts")
	overlay := map[string][]byte{}
	var patterns []string
	err := filepath.Walk(cdir, func(p string, info os.FileInfo, err error) error {
		if err != nil {
			return err
		}
		if info.IsDir() || info.Name() != "verif_contracts.go" {
			return nil
		}
		rel, _ := filepath.Rel(cdir, filepath.Dir(p))
		src, err := os.ReadFile(p)
		if err != nil {
			return err
		}
		pkgDir := filepath.Join(repo, rel)
		target := filepath.Join(pkgDir, "verif_contracts.go")
		overlay[target] = src
		if inRepo := readFileOr(target); inRepo == nil {
			w.mirrorMsg = append(w.mirrorMsg, fmt.Sprintf("contract file %s absent from the repository tree: using the mirror under /verif/contracts", filepath.Join(rel, "verif_contracts.go")))
		} else if !bytes.Equal(inRepo, src) {
			w.mirrorMsg = append(w.mirrorMsg, fmt.Sprintf("contract file %s in the repository differs from the mirror: using the mirror under /verif/contracts", filepath.Join(rel, "verif_contracts.go")))
		}
		cf, err := parseContractFile(target, pkgDir, src)
		if err != nil {
			return err
		}
		w.files = append(w.files, cf)
		if rel == "." {
			patterns = append(patterns, ".")
		} else {
			patterns = append(patterns, "./"+filepath.ToSlash(rel))
		}
		return nil
	})
	if err != nil {
		return nil, err
	}
	if len(w.files) == 0 {
		return nil, fmt.Errorf("no contract files under %s", cdir)
	}
	sort.Strings(patterns)
	load := func(ov map[string][]byte) ([]*packages.Package, error) {
		cfg := &packages.Config{Mode: packages.LoadAllSyntax, Dir: repo, BuildFlags: []string{"-tags=verif"}, Overlay: ov, Fset: token.NewFileSet(),
			Env: append(os.Environ(), "GOFLAGS=-mod=mod", "GOPROXY=off")}
		pkgs, err := packages.Load(cfg, patterns...)
		if err != nil {
			return nil, err
		}
		var msgs []string
		packages.Visit(pkgs, nil, func(p *packages.Package) {
			for _, e := range p.Errors {
				msgs = append(msgs, e.Error())
			}
		})
		if len(msgs) > 0 {
			if len(msgs) > 12 {
				msgs = msgs[:12]
			}
			return nil, fmt.Errorf("load errors:\n  %s", strings.Join(msgs, "\n  "))
		}
		return pkgs, nil
	}
	pkgs, err := load(overlay)
	if err != nil {
		return nil, err
	}
	byDir := map[string]*packages.Package{}
	for _, p := range pkgs {
		if len(p.GoFiles) > 0 {
			byDir[filepath.Dir(p.GoFiles[0])] = p
		}
	}
	for _, cf := range w.files {
		p := byDir[cf.PkgDir]
		if p == nil {
			return nil, fmt.Errorf("package for %s not loaded", cf.PkgDir)
		}
		cf.PkgPath = p.PkgPath
		g := &genCtx{pkg: p.Types, info: p.TypesInfo, files: p.Syntax, fset: p.Fset, used: map[string]bool{}, imports: map[string]string{}}
		src, err := g.generate(cf)
		if err != nil {
			return nil, err
		}
		w.synthSrc[cf.PkgPath] = src
		overlay[filepath.Join(cf.PkgDir, "zz_verif_synth.go")] = []byte(src)
		for k, v := range cf.Globals {
			w.globals[p.Types.Name()+"."+k] = v
		}
	}
	pkgs, err = load(overlay)
	if err != nil {
		for path, src := range w.synthSrc {
			_ = os.MkdirAll("/var/tmp/govc-debug", 0o755)
			_ = os.WriteFile("/var/tmp/govc-debug/"+symName(path)+".go", []byte(src), 0o644)
		}
		return nil, fmt.Errorf("%v\n(generated clause sources dumped under /var/tmp/govc-debug)", err)
	}
	w.pkgs = pkgs
	prog, spkgs := ssautil.AllPackages(pkgs, ssa.GlobalDebug)
	prog.Build()
	w.prog = prog
	for i, p := range pkgs {
		w.ssaPkgs[p.PkgPath] = spkgs[i]
	}
	for _, sp := range prog.AllPackages() {
		if _, ok := w.ssaPkgs[sp.Pkg.Path()]; !ok {
			w.ssaPkgs[sp.Pkg.Path()] = sp
		}
	}
	// re-resolve contract objects against the second load
	byPath := map[string]*packages.Package{}
	for _, p := range pkgs {
		byPath[p.PkgPath] = p
	}
	for _, cf := range w.files {
		p := byPath[cf.PkgPath]
		for _, c := range cf.Contracts {
			fn, _, err := lookupTarget(p.Types, c.Kind, c.Target)
			if err != nil {
				return nil, err
			}
			c.Obj = fn
			c.PkgPath = cf.PkgPath
			w.all = append(w.all, c)
			if c.Kind == "iface" {
				w.ifaceCons[cf.PkgPath+"."+c.Target] = c
			} else {
				w.contracts[contractKeyOf(c)] = c
			}
		}
	}
	w.fieldInv = map[string]*FieldInvRef{}
	for _, cf := range w.files {
		for _, fi := range cf.FieldInvs {
			w.fieldInv["G:"+strings.TrimPrefix(fi.Ghost, "ghost_")] = &FieldInvRef{fi, cf.PkgPath}
		}
	}
	for _, cf := range w.files {
		for _, k := range cf.Immutable {
			w.immutable[k] = true
		}
	}
	w.itfKeys = []string{"G:tbl", "G:calls", "G:expiresAt", "G:refreshableAt", "G:state"}
	return w, nil
}

func (w *world) isRepoPkg(fn *ssa.Function) bool {
	p := ""
	if fn.Pkg != nil {
		p = fn.Pkg.Pkg.Path()
	} else if fn.Object() != nil && fn.Object().Pkg() != nil {
		p = fn.Object().Pkg().Path()
	} else if fn.Parent() != nil {
		return w.isRepoPkg(fn.Parent())
	}
	return strings.HasPrefix(p, modulePath)
}

func (w *world) ifaceContractOf(m *types.Func) *Contract {
	sig, ok := m.Type().(*types.Signature)
	if !ok || sig.Recv() == nil {
		return nil
	}
	rt := sig.Recv().Type()
	if p, ok := rt.(*types.Pointer); ok {
		rt = p.Elem()
	}
	n, ok := rt.(*types.Named)
	if !ok || n.Obj().Pkg() == nil {
		return nil
	}
	return w.ifaceCons[n.Obj().Pkg().Path()+"."+n.Origin().Obj().Name()+"."+m.Name()]
}

func (w *world) ifaceContract(t types.Type, method string) *Contract {
	n, ok := t.(*types.Named)
	if !ok || n.Obj().Pkg() == nil {
		return nil
	}
	if c := w.ifaceCons[n.Obj().Pkg().Path()+"."+n.Origin().Obj().Name()+"."+method]; c != nil {
		return c
	}
	// embedded interfaces
	if it, ok := n.Underlying().(*types.Interface); ok {
		for i := 0; i < it.NumMethods(); i++ {
			if it.Method(i).Name() == method {
				return w.ifaceContractOf(it.Method(i))
			}
		}
	}
	return nil
}

func (w *world) findStub(name string) *ssa.Function {
	for _, cf := range w.files {
		if sp := w.ssaPkgs[cf.PkgPath]; sp != nil {
			if f := sp.Func(name); f != nil {
				return f
			}
			if f := sp.Func("Ghost_" + strings.TrimPrefix(name, "ghost_")); f != nil {
				return f
			}
		}
	}
	return nil
}

func (w *world) ssaFunc(c *Contract) *ssa.Function {
	f := w.prog.FuncValue(c.Obj)
	if f == nil {
		return nil
	}
	if o := f.Origin(); o != nil {
		f = o
	}
	return f
}

// countedName: some function contract with the flag `counted` has this (short) function name.
func (w *world) countedName(name string) bool {
	if w.counted == nil {
		w.counted = map[string]bool{}
		for _, c := range w.all {
			if c.Flags["counted"] && c.Obj != nil {
				w.counted[c.Obj.Name()] = true
			}
		}
	}
	return w.counted[name]
}

// reachableNames: the (short) names of all functions and methods that the function of con can reach statically:
// through calls, closures, function values, bound methods, and interface method calls (by method name).
func (w *world) reachableNames(con *Contract) map[string]bool {
	if w.reach == nil {
		w.reach = map[*Contract]map[string]bool{}
	}
	if r, ok := w.reach[con]; ok {
		return r
	}
	r := map[string]bool{}
	w.reach[con] = r
	if con.Obj == nil {
		return r
	}
	root := w.ssaFunc(con)
	if root == nil {
		return r
	}
	seen := map[*ssa.Function]bool{}
	var queue []*ssa.Function
	push := func(f *ssa.Function) {
		if f == nil {
			return
		}
		if o := f.Origin(); o != nil {
			f = o
		}
		if !seen[f] {
			seen[f] = true
			queue = append(queue, f)
			r[f.Name()] = true
		}
	}
	push(root)
	delete(r, root.Name())
	for len(queue) > 0 {
		f := queue[0]
		queue = queue[1:]
		for _, af := range f.AnonFuncs {
			push(af)
		}
		for _, b := range f.Blocks {
			for _, in := range b.Instrs {
				if c, ok := in.(ssa.CallInstruction); ok {
					cc := c.Common()
					if cc.IsInvoke() {
						r[cc.Method.Name()] = true
						// every implementation in the repository of a method of that name
						for _, g := range w.methodsNamed(cc.Method.Name()) {
							push(g)
						}
					} else if sc := cc.StaticCallee(); sc != nil {
						push(sc)
					}
				}
				for _, op := range in.Operands(nil) {
					if op == nil || *op == nil {
						continue
					}
					switch v := (*op).(type) {
					case *ssa.Function:
						push(v)
					case *ssa.MakeClosure:
						if cf, ok := v.Fn.(*ssa.Function); ok {
							push(cf)
						}
					}
				}
			}
		}
	}
	return r
}

// methodsNamed: all methods with that name declared in the repository's packages.
func (w *world) methodsNamed(name string) []*ssa.Function {
	if w.byMethodName == nil {
		w.byMethodName = map[string][]*ssa.Function{}
		for _, pkg := range w.prog.AllPackages() {
			if !strings.HasPrefix(pkg.Pkg.Path(), modulePath) {
				continue
			}
			for _, m := range pkg.Members {
				t, ok := m.(*ssa.Type)
				if !ok {
					continue
				}
				nt, ok := t.Type().(*types.Named)
				if !ok {
					continue
				}
				for i := 0; i < nt.NumMethods(); i++ {
					if f := w.prog.FuncValue(nt.Method(i)); f != nil {
						w.byMethodName[f.Name()] = append(w.byMethodName[f.Name()], f)
					}
				}
			}
		}
	}
	return w.byMethodName[name]
}
