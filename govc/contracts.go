package main

// Contract files: parsing of the `//@` blocks and generation of the synthetic clause functions.
//
// A contract file is /repo/<pkg>/verif_contracts.go (//go:build verif), mirrored under /verif/contracts/.
// It contains (a) ordinary Go spec functions and stubs, compiled only under the tag, and (b) comment
// blocks of the form
//
//	//@ func (*cache).setExpiresAfterRead : C12 C03
//	//@   mode seq,itf
//	//@   flags nopanic
//	//@   var jstar uint64
//	//@   requires c.withExpiration
//	//@   modifies n.expiresAt
//	//@   ensures [C12:read-exact] expiresAfter > 0 ==> expiresAt(n) == satadd(nowNano, int64(expiresAfter))
//	//@   loop 1: invariant i >= 0
//	//@   loop 1: unroll 4
//	//@   callback evictNode: requires ...
//
// Every clause is turned into a synthetic Go function (handed to the loader through the overlay only),
// type-checked by go/types and lowered by go/ssa like any other function.

import (
	"fmt"
	"go/ast"
	"go/parser"
	"go/token"
	"go/types"
	"os"
	"path/filepath"
	"regexp"
	"sort"
	"strconv"
	"strings"
)

type Clause struct {
	Kind     string // requires | ensures | invariant | cbrequires | cbensures
	Prop     string // property tag ("" = auxiliary)
	Label    string
	Expr     string
	Loop     int
	Callback string
	Line     int
	OnPanic  bool
	Mode     string // "" = every mode; "seq" / "itf" = only that mode
	Assumed  bool   // loop fact that is assumed at the loop head and never proved (listed with the assumptions)

	FnName string   // synthetic function
	P1     []string // parameter names of level 1 (entry state)
	P3     []string // parameter names of the innermost level (results / locals / callback params)
	Levels int      // 1: returns bool; 2: func(P3) bool; 3: func() func(P3) bool
}

func (c *Clause) Tag() string {
	if c.Prop != "" {
		return c.Prop + ":" + c.Label
	}
	return c.Label
}

type LoopSpec struct {
	Invariants []*Clause
	Unroll     int
	Modifies   []string
}

type CbSpec struct {
	Name     string
	Requires []*Clause
	Ensures  []*Clause
	Modifies []string
	Mods     []*ModItem
}

// ModItem is one item of a modifies clause.
//
//	X.f            field f of the object X (abstract node field when X is a node interface)
//	X[*]           all elements of slice X          X[i]  one element
//	ghost_g(a, b)  one location of ghost map g      ghost_g(*)  all of ghost g
//	T::f           field f of every object of struct type T (node::f for abstract node fields)
type ModItem struct {
	Raw    string
	Kind   string // field | elems | elem | ghost | ghostall | whole
	Field  string
	Type   string
	Ghost  string
	ArgFns []string // synthetic functions returning the base object / index / ghost arguments
}

type VarDecl struct{ Name, Type string }

type Contract struct {
	PkgPath      string
	PkgDir       string
	Kind         string // func | iface
	Target       string // "(*cache).set" | "getCause" | "Node.HasExpired"
	Props        []string
	Modes        []string
	Flags        map[string]bool
	Vars         []VarDecl
	Requires     []*Clause
	Ensures      []*Clause
	Modifies     []string
	Mods         []*ModItem
	Loops        map[int]*LoopSpec
	Cbs          map[string]*CbSpec
	Sites        map[string][]*Clause // call-site assertions: callee name -> clauses over the caller's locals
	ClosureLoops map[string]*LoopSpec // "closureName:ordinal" -> loop spec
	Line         int
	Notes        []string

	// resolved
	Obj             *types.Func
	RecvName        string
	Params          []string // names in order: receiver, params
	Results         []string
	allCl           []*Clause
	OwnModifies     []string // own-modifies: what the function itself writes, apart from the effects of its callbacks
	OwnMods         []*ModItem
	HasOwn          bool
	CbInvs          map[string][]*Clause // site NAME: callback-invariant ... (kept by the callbacks passed to NAME)
	SiteAssumes     map[string][]*Clause // site NAME: assume ... (about the result of the call; part of a declared assumption)
	CallsOnly       []string             // calls-only T1, T2: the only functions under contract that may be called (directly or from inlined helpers)
	PerVariant      string               // per-variant PREFIX: verified for the function PREFIX<X> of every node variant X, under X's conformance setup
	Delegates       string               // delegates TARGET on EXPR: the body is one call of TARGET, arguments and results passed through
	DelegateOn      string
	DelegateFn      string   // synthetic function returning the expected receiver
	DelegateArgs    []string // explicit expected arguments (default: the function's own parameters in order)
	DelegateArgFns  []string
	HasDelegateArgs bool
	Broken          string // a clause could not be generated (see the message); the function is reported as not generated
}

// HasProp: the contract is listed for property p, or one of its clauses is labelled with p ([p:label]).
func (c *Contract) HasProp(p string) bool {
	for _, q := range c.Props {
		if q == p {
			return true
		}
	}
	for _, cl := range c.allCl {
		if cl.Prop == p {
			return true
		}
	}
	return false
}

func (c *Contract) Key() string { return c.PkgPath + "." + c.Target }

type ContractFile struct {
	PkgDir    string // absolute dir in the repo
	PkgPath   string
	Path      string // path of verif_contracts.go (in repo)
	Src       []byte
	Contracts []*Contract
	Imports   map[string]string // name -> path
	Globals   map[string][]uint64
	FieldInvs []*FieldInv
	Immutable []string
}

// FieldInv is a global invariant of one ghost field: assumed at every read, re-established by every
// verified function for the locations it modifies.
type FieldInv struct {
	Ghost  string
	Expr   string
	FnName string
	Line   int
}

var reHead = regexp.MustCompile(`^(func|iface)\s+(\S+)\s*(?::\s*(.*))?$`)
var reTag = regexp.MustCompile(`^\[([A-Za-z0-9]+:)?([A-Za-z0-9_\-\.]+)\]\s*(.*)$`)

func parseContractFile(path, pkgDir string, src []byte) (*ContractFile, error) {
	cf := &ContractFile{PkgDir: pkgDir, Path: path, Src: src, Imports: map[string]string{}, Globals: map[string][]uint64{}}
	fset := token.NewFileSet()
	f, err := parser.ParseFile(fset, path, src, parser.ParseComments|parser.ImportsOnly)
	if err != nil {
		return nil, err
	}
	for _, im := range f.Imports {
		p, _ := strconv.Unquote(im.Path.Value)
		name := filepath.Base(p)
		if im.Name != nil {
			name = im.Name.Name
		}
		cf.Imports[name] = p
	}
	var cur *Contract
	macros := map[string]string{}
	lines := strings.Split(string(src), "\n")
	for i := 0; i < len(lines); i++ {
		ln := strings.TrimSpace(lines[i])
		if !strings.HasPrefix(ln, "//@") {
			continue
		}
		body := strings.TrimSpace(strings.TrimPrefix(ln, "//@"))
		// continuation lines: "//@     | more"
		for i+1 < len(lines) {
			nx := strings.TrimSpace(lines[i+1])
			if strings.HasPrefix(nx, "//@") && strings.HasPrefix(strings.TrimSpace(strings.TrimPrefix(nx, "//@")), "|") {
				body += " " + strings.TrimSpace(strings.TrimPrefix(strings.TrimSpace(strings.TrimPrefix(nx, "//@")), "|"))
				i++
				continue
			}
			break
		}
		if body == "" || strings.HasPrefix(body, "#") {
			continue
		}
		lineNo := i + 1
		if strings.Contains(body, "$") {
			var names []string
			for k := range macros {
				names = append(names, k)
			}
			sort.Slice(names, func(a, b int) bool { return len(names[a]) > len(names[b]) })
			for _, k := range names {
				body = strings.ReplaceAll(body, "$"+k, macros[k])
			}
		}
		if strings.HasPrefix(body, "macro ") {
			parts := strings.SplitN(strings.TrimPrefix(body, "macro "), "=", 2)
			if len(parts) != 2 {
				return nil, fmt.Errorf("%s:%d: bad macro", path, lineNo)
			}
			macros[strings.TrimSpace(parts[0])] = strings.TrimSpace(parts[1])
			continue
		}
		if m := reHead.FindStringSubmatch(body); m != nil {
			cur = &Contract{PkgDir: pkgDir, Kind: m[1], Target: m[2], Flags: map[string]bool{}, Loops: map[int]*LoopSpec{}, Cbs: map[string]*CbSpec{}, Sites: map[string][]*Clause{}, ClosureLoops: map[string]*LoopSpec{}, Line: lineNo}
			cur.Props = strings.Fields(m[3])
			cf.Contracts = append(cf.Contracts, cur)
			continue
		}
		if strings.HasPrefix(body, "global ") { // global shift = 30,36,42,47,49
			parts := strings.SplitN(strings.TrimPrefix(body, "global "), "=", 2)
			if len(parts) != 2 {
				return nil, fmt.Errorf("%s:%d: bad global", path, lineNo)
			}
			var vals []uint64
			for _, s := range strings.Split(parts[1], ",") {
				v, err := strconv.ParseUint(strings.TrimSpace(s), 0, 64)
				if err != nil {
					return nil, fmt.Errorf("%s:%d: bad global value %q", path, lineNo, s)
				}
				vals = append(vals, v)
			}
			cf.Globals[strings.TrimSpace(parts[0])] = vals
			continue
		}
		if strings.HasPrefix(body, "immutable ") {
			for _, it := range strings.Split(strings.TrimPrefix(body, "immutable "), ",") {
				if it = strings.TrimSpace(it); it != "" {
					cf.Immutable = append(cf.Immutable, it)
				}
			}
			continue
		}
		if strings.HasPrefix(body, "fieldinv ") { // fieldinv ghost_expiresAt: v >= 0
			parts := strings.SplitN(strings.TrimPrefix(body, "fieldinv "), ":", 2)
			if len(parts) != 2 {
				return nil, fmt.Errorf("%s:%d: bad fieldinv", path, lineNo)
			}
			cf.FieldInvs = append(cf.FieldInvs, &FieldInv{Ghost: strings.TrimSpace(parts[0]), Expr: strings.TrimSpace(parts[1]), Line: lineNo})
			continue
		}
		if cur == nil {
			return nil, fmt.Errorf("%s:%d: clause outside a contract block: %s", path, lineNo, body)
		}
		kw, rest := body, ""
		if j := strings.IndexAny(body, " \t"); j >= 0 {
			kw, rest = body[:j], strings.TrimSpace(body[j:])
		}
		mk := func(kind, rest string) *Clause {
			cl := &Clause{Kind: kind, Line: lineNo}
			if strings.HasPrefix(rest, "on-panic ") {
				cl.OnPanic = true
				rest = strings.TrimSpace(strings.TrimPrefix(rest, "on-panic "))
			}
			if strings.HasPrefix(rest, "@seq ") {
				cl.Mode = "seq"
				rest = strings.TrimSpace(strings.TrimPrefix(rest, "@seq "))
			} else if strings.HasPrefix(rest, "@itf ") {
				cl.Mode = "itf"
				rest = strings.TrimSpace(strings.TrimPrefix(rest, "@itf "))
			}
			if m := reTag.FindStringSubmatch(rest); m != nil {
				cl.Prop = strings.TrimSuffix(m[1], ":")
				cl.Label = m[2]
				rest = m[3]
			}
			cl.Expr = rest
			return cl
		}
		switch kw {
		case "mode":
			cur.Modes = strings.Split(strings.ReplaceAll(rest, " ", ""), ",")
		case "flags":
			for _, fl := range strings.Fields(rest) {
				cur.Flags[fl] = true
			}
		case "assumed", "nopanic", "pure", "inline", "fresh", "panics", "noframe", "noreturn", "may-panic", "nilcheck", "counted", "nonblocking-sends", "bounded", "bodies", "thorough-only", "prune-paths":
			cur.Flags[kw] = true
			if rest != "" {
				cur.Notes = append(cur.Notes, kw+": "+rest)
			}
		case "note":
			cur.Notes = append(cur.Notes, rest)
		case "per-variant":
			// per-variant PREFIX: the contract is verified for PREFIX<X> of every node variant X (interface conformance setup)
			cur.PerVariant = strings.TrimSpace(rest)
		case "calls-only":
			for _, it := range splitTop(rest, ',') {
				if strings.TrimSpace(it) != "" {
					cur.CallsOnly = append(cur.CallsOnly, strings.TrimSpace(it))
				}
			}
		case "delegates":
			// delegates TARGET on EXPR
			if k := strings.Index(rest, " args "); k >= 0 {
				cur.HasDelegateArgs = true
				for _, a := range splitTop(rest[k+6:], ',') {
					if strings.TrimSpace(a) != "" {
						cur.DelegateArgs = append(cur.DelegateArgs, strings.TrimSpace(a))
					}
				}
				rest = rest[:k]
			}
			fs := strings.SplitN(rest, " on ", 2)
			cur.Delegates = strings.TrimSpace(fs[0])
			if len(fs) == 2 {
				cur.DelegateOn = strings.TrimSpace(fs[1])
			}
		case "var":
			fs := strings.SplitN(rest, " ", 2)
			if len(fs) != 2 {
				return nil, fmt.Errorf("%s:%d: var NAME TYPE", path, lineNo)
			}
			cur.Vars = append(cur.Vars, VarDecl{fs[0], strings.TrimSpace(fs[1])})
		case "requires":
			cur.Requires = append(cur.Requires, mk("requires", rest))
		case "ensures":
			cur.Ensures = append(cur.Ensures, mk("ensures", rest))
		case "modifies":
			for _, it := range splitTop(rest, ',') {
				cur.Modifies = append(cur.Modifies, strings.TrimSpace(it))
			}
		case "own-modifies":
			cur.HasOwn = true
			for _, it := range splitTop(rest, ',') {
				if strings.TrimSpace(it) != "" {
					cur.OwnModifies = append(cur.OwnModifies, strings.TrimSpace(it))
				}
			}
		case "loop":
			j := strings.Index(rest, ":")
			if j < 0 {
				return nil, fmt.Errorf("%s:%d: loop N: ...", path, lineNo)
			}
			var ls *LoopSpec
			n := 0
			head := strings.TrimSpace(rest[:j])
			sub := strings.TrimSpace(rest[j+1:])
			if v, err := strconv.Atoi(head); err == nil {
				n = v
				ls = cur.Loops[n]
				if ls == nil {
					ls = &LoopSpec{}
					cur.Loops[n] = ls
				}
			} else {
				// loop <closure>:<n>: ...
				k := strings.Index(sub, ":")
				if k < 0 {
					return nil, fmt.Errorf("%s:%d: loop <closure>:<n>: ...", path, lineNo)
				}
				v, err := strconv.Atoi(strings.TrimSpace(sub[:k]))
				if err != nil {
					return nil, fmt.Errorf("%s:%d: loop ordinal: %v", path, lineNo, err)
				}
				n = v
				key := head + ":" + strconv.Itoa(n)
				ls = cur.ClosureLoops[key]
				if ls == nil {
					ls = &LoopSpec{}
					cur.ClosureLoops[key] = ls
				}
				sub = strings.TrimSpace(sub[k+1:])
			}
			skw, srest := sub, ""
			if k := strings.IndexAny(sub, " \t"); k >= 0 {
				skw, srest = sub[:k], strings.TrimSpace(sub[k:])
			}
			switch skw {
			case "invariant":
				cl := mk("invariant", srest)
				cl.Loop = n
				ls.Invariants = append(ls.Invariants, cl)
			case "assume":
				// a fact about the loop state that the verifier cannot establish (part of a declared assumption such as
				// A-ring): assumed at the loop head, never proved, and always listed among the assumptions
				cl := mk("invariant", srest)
				cl.Loop = n
				cl.Assumed = true
				ls.Invariants = append(ls.Invariants, cl)
			case "unroll":
				ls.Unroll, err = strconv.Atoi(srest)
				if err != nil {
					return nil, fmt.Errorf("%s:%d: unroll: %v", path, lineNo, err)
				}
			case "modifies":
				for _, it := range splitTop(srest, ',') {
					ls.Modifies = append(ls.Modifies, strings.TrimSpace(it))
				}
			default:
				return nil, fmt.Errorf("%s:%d: unknown loop clause %q", path, lineNo, skw)
			}
		case "site":
			j := strings.Index(rest, ":")
			if j < 0 {
				return nil, fmt.Errorf("%s:%d: site NAME: requires ...", path, lineNo)
			}
			name := strings.TrimSpace(rest[:j])
			sub := strings.TrimSpace(rest[j+1:])
			if strings.HasPrefix(sub, "assume") {
				// a fact about the result of a call of NAME that belongs to a declared assumption (the buffers): assumed
				// after the call, never proved, always listed with the assumptions
				cl := mk("siterequires", strings.TrimSpace(strings.TrimPrefix(sub, "assume")))
				cl.Callback = name
				cl.Assumed = true
				if cur.SiteAssumes == nil {
					cur.SiteAssumes = map[string][]*Clause{}
				}
				cur.SiteAssumes[name] = append(cur.SiteAssumes[name], cl)
				break
			}
			if strings.HasPrefix(sub, "callback-invariant") {
				cl := mk("siterequires", strings.TrimSpace(strings.TrimPrefix(sub, "callback-invariant")))
				cl.Callback = name
				if cur.CbInvs == nil {
					cur.CbInvs = map[string][]*Clause{}
				}
				cur.CbInvs[name] = append(cur.CbInvs[name], cl)
				break
			}
			if !strings.HasPrefix(sub, "requires") {
				return nil, fmt.Errorf("%s:%d: site NAME: requires ...", path, lineNo)
			}
			cl := mk("siterequires", strings.TrimSpace(strings.TrimPrefix(sub, "requires")))
			cl.Callback = name
			cur.Sites[name] = append(cur.Sites[name], cl)
		case "callback", "result-callback":
			j := strings.Index(rest, ":")
			if j < 0 {
				return nil, fmt.Errorf("%s:%d: callback NAME: ...", path, lineNo)
			}
			name := strings.TrimSpace(rest[:j])
			if kw == "result-callback" {
				name = "result:" + name
			}
			cb := cur.Cbs[name]
			if cb == nil {
				cb = &CbSpec{Name: name}
				cur.Cbs[name] = cb
			}
			sub := strings.TrimSpace(rest[j+1:])
			skw, srest := sub, ""
			if k := strings.IndexAny(sub, " \t"); k >= 0 {
				skw, srest = sub[:k], strings.TrimSpace(sub[k:])
			}
			switch skw {
			case "requires":
				cl := mk("cbrequires", srest)
				cl.Callback = name
				cb.Requires = append(cb.Requires, cl)
			case "ensures":
				cl := mk("cbensures", srest)
				cl.Callback = name
				cb.Ensures = append(cb.Ensures, cl)
			case "modifies":
				for _, it := range splitTop(srest, ',') {
					cb.Modifies = append(cb.Modifies, strings.TrimSpace(it))
				}
			default:
				return nil, fmt.Errorf("%s:%d: unknown callback clause %q", path, lineNo, skw)
			}
		default:
			return nil, fmt.Errorf("%s:%d: unknown contract keyword %q", path, lineNo, kw)
		}
	}
	for _, c := range cf.Contracts {
		if len(c.Modes) == 0 {
			c.Modes = []string{"seq"}
		}
		n := 0
		lbl := func(cl *Clause) {
			n++
			if cl.Label == "" {
				cl.Label = fmt.Sprintf("%s%d", cl.Kind, n)
			}
			c.allCl = append(c.allCl, cl)
		}
		for _, cl := range c.Requires {
			lbl(cl)
		}
		for _, cl := range c.Ensures {
			lbl(cl)
		}
		var lo []int
		for k := range c.Loops {
			lo = append(lo, k)
		}
		sort.Ints(lo)
		for _, k := range lo {
			for _, cl := range c.Loops[k].Invariants {
				lbl(cl)
			}
		}
		var clk []string
		for k := range c.ClosureLoops {
			clk = append(clk, k)
		}
		sort.Strings(clk)
		for _, k := range clk {
			for _, cl := range c.ClosureLoops[k].Invariants {
				lbl(cl)
			}
		}
		var sn []string
		for k := range c.Sites {
			sn = append(sn, k)
		}
		sort.Strings(sn)
		for _, k := range sn {
			for _, cl := range c.Sites[k] {
				lbl(cl)
			}
		}
		var san []string
		for k := range c.SiteAssumes {
			san = append(san, k)
		}
		sort.Strings(san)
		for _, k := range san {
			for _, cl := range c.SiteAssumes[k] {
				lbl(cl)
			}
		}
		var cin []string
		for k := range c.CbInvs {
			cin = append(cin, k)
		}
		sort.Strings(cin)
		for _, k := range cin {
			for _, cl := range c.CbInvs[k] {
				lbl(cl)
			}
		}
		var cbn []string
		for k := range c.Cbs {
			cbn = append(cbn, k)
		}
		sort.Strings(cbn)
		for _, k := range cbn {
			for _, cl := range c.Cbs[k].Requires {
				lbl(cl)
			}
			for _, cl := range c.Cbs[k].Ensures {
				lbl(cl)
			}
		}
	}
	return cf, nil
}

func splitTop(s string, sep byte) []string {
	var out []string
	depth, start := 0, 0
	for i := 0; i < len(s); i++ {
		switch s[i] {
		case '(', '[', '{':
			depth++
		case ')', ']', '}':
			depth--
		default:
			if s[i] == sep && depth == 0 {
				out = append(out, s[start:i])
				start = i + 1
			}
		}
	}
	if strings.TrimSpace(s[start:]) != "" {
		out = append(out, s[start:])
	}
	return out
}

// ---------------------------------------------------------------- expression rewriting

func isIdentByte(b byte) bool {
	return b == '_' || (b >= '0' && b <= '9') || (b >= 'a' && b <= 'z') || (b >= 'A' && b <= 'Z')
}

// hoist replaces every call kw(e) by kw_<i> and returns the hoisted expressions.
func hoist(expr, kw string) (string, []string) {
	var hoisted []string
	for {
		idx := -1
		for i := 0; i+len(kw) < len(expr); i++ {
			if strings.HasPrefix(expr[i:], kw+"(") && (i == 0 || !isIdentByte(expr[i-1]) && expr[i-1] != '.') {
				idx = i
				break
			}
		}
		if idx < 0 {
			return expr, hoisted
		}
		depth, j := 0, idx+len(kw)
		for ; j < len(expr); j++ {
			if expr[j] == '(' {
				depth++
			} else if expr[j] == ')' {
				depth--
				if depth == 0 {
					break
				}
			}
		}
		inner := expr[idx+len(kw)+1 : j]
		name := fmt.Sprintf("%s_%d", kw, len(hoisted))
		hoisted = append(hoisted, inner)
		expr = expr[:idx] + name + expr[j+1:]
	}
}

// implTransform rewrites a ==> b (lowest precedence, right associative) into implies(a, b).
func implTransform(s string) string {
	// first transform inside parenthesised groups
	var b strings.Builder
	for i := 0; i < len(s); i++ {
		if s[i] == '(' {
			depth, j := 0, i
			for ; j < len(s); j++ {
				if s[j] == '(' {
					depth++
				} else if s[j] == ')' {
					depth--
					if depth == 0 {
						break
					}
				}
			}
			if j >= len(s) {
				b.WriteString(s[i:])
				break
			}
			inner := s[i+1 : j]
			// argument lists: transform each top-level comma part
			parts := splitTopKeep(inner)
			for k := range parts {
				parts[k] = implTransform(parts[k])
			}
			b.WriteString("(" + strings.Join(parts, ",") + ")")
			i = j
			continue
		}
		b.WriteByte(s[i])
	}
	s = b.String()
	depth := 0
	for i := 0; i+2 < len(s); i++ {
		switch s[i] {
		case '(', '[', '{':
			depth++
		case ')', ']', '}':
			depth--
		}
		if depth == 0 && s[i] == '=' && s[i+1] == '=' && s[i+2] == '>' {
			return "implies(" + strings.TrimSpace(s[:i]) + ", " + implTransform(strings.TrimSpace(s[i+3:])) + ")"
		}
	}
	return s
}

func splitTopKeep(s string) []string {
	var out []string
	depth, start := 0, 0
	for i := 0; i < len(s); i++ {
		switch s[i] {
		case '(', '[', '{':
			depth++
		case ')', ']', '}':
			depth--
		case ',':
			if depth == 0 {
				out = append(out, s[start:i])
				start = i + 1
			}
		}
	}
	out = append(out, s[start:])
	return out
}

// ---------------------------------------------------------------- resolution against go/types and generation

type genCtx struct {
	pkg     *types.Package
	info    *types.Info
	files   []*ast.File
	fset    *token.FileSet
	used    map[string]bool // imported package names used in generated signatures
	imports map[string]string
}

func (g *genCtx) qual(p *types.Package) string {
	if p == g.pkg {
		return ""
	}
	g.used[p.Name()] = true
	g.imports[p.Name()] = p.Path()
	return p.Name()
}

func (g *genCtx) typeStr(t types.Type) string { return types.TypeString(t, g.qual) }

func lookupTarget(pkg *types.Package, kind, target string) (*types.Func, *types.Named, error) {
	if kind == "iface" {
		parts := strings.SplitN(target, ".", 2)
		if len(parts) != 2 {
			return nil, nil, fmt.Errorf("iface target must be I.m: %s", target)
		}
		o := pkg.Scope().Lookup(parts[0])
		if o == nil {
			return nil, nil, fmt.Errorf("no type %s in %s", parts[0], pkg.Path())
		}
		named, ok := o.Type().(*types.Named)
		if !ok {
			return nil, nil, fmt.Errorf("%s is not a named type", parts[0])
		}
		it, ok := named.Underlying().(*types.Interface)
		if !ok {
			return nil, nil, fmt.Errorf("%s is not an interface", parts[0])
		}
		for i := 0; i < it.NumMethods(); i++ {
			if it.Method(i).Name() == parts[1] {
				return it.Method(i), named, nil
			}
		}
		return nil, nil, fmt.Errorf("interface %s has no method %s", parts[0], parts[1])
	}
	t := target
	if strings.HasPrefix(t, "(") { // (*T).m
		j := strings.Index(t, ")")
		tn := strings.TrimPrefix(t[1:j], "*")
		mn := strings.TrimPrefix(t[j+1:], ".")
		return lookupMethod(pkg, tn, mn)
	}
	if j := strings.Index(t, "."); j >= 0 {
		return lookupMethod(pkg, t[:j], t[j+1:])
	}
	o := pkg.Scope().Lookup(t)
	if o == nil {
		return nil, nil, fmt.Errorf("no function %s in %s", t, pkg.Path())
	}
	f, ok := o.(*types.Func)
	if !ok {
		return nil, nil, fmt.Errorf("%s is not a function", t)
	}
	return f, nil, nil
}

func lookupMethod(pkg *types.Package, tn, mn string) (*types.Func, *types.Named, error) {
	o := pkg.Scope().Lookup(tn)
	if o == nil {
		return nil, nil, fmt.Errorf("no type %s in %s", tn, pkg.Path())
	}
	named, ok := o.Type().(*types.Named)
	if !ok {
		return nil, nil, fmt.Errorf("%s is not a named type", tn)
	}
	for i := 0; i < named.NumMethods(); i++ {
		if named.Method(i).Name() == mn {
			return named.Method(i), named, nil
		}
	}
	return nil, nil, fmt.Errorf("type %s has no method %s", tn, mn)
}

func tparamList(g *genCtx, tps *types.TypeParamList) (decl string) {
	if tps == nil || tps.Len() == 0 {
		return ""
	}
	var ps []string
	for i := 0; i < tps.Len(); i++ {
		ps = append(ps, tps.At(i).Obj().Name()+" "+g.typeStr(tps.At(i).Constraint()))
	}
	return "[" + strings.Join(ps, ", ") + "]"
}

func tparamArgs(tps *types.TypeParamList) string {
	if tps == nil || tps.Len() == 0 {
		return ""
	}
	var ps []string
	for i := 0; i < tps.Len(); i++ {
		ps = append(ps, tps.At(i).Obj().Name())
	}
	return "[" + strings.Join(ps, ", ") + "]"
}

type nameType struct{ name, typ string }

// findFuncDecl locates the declaration of fn.
func (g *genCtx) findFuncDecl(fn *types.Func) *ast.FuncDecl {
	for _, f := range g.files {
		for _, d := range f.Decls {
			if fd, ok := d.(*ast.FuncDecl); ok && fd.Name.Pos() == fn.Pos() {
				return fd
			}
		}
	}
	return nil
}

// localType returns the type of the first local variable called name declared inside fd.
func (g *genCtx) localVar(fd *ast.FuncDecl, name string) *types.Var {
	var found *types.Var
	if fd == nil || fd.Body == nil {
		return nil
	}
	ast.Inspect(fd.Body, func(n ast.Node) bool {
		if found != nil {
			return false
		}
		if id, ok := n.(*ast.Ident); ok && id.Name == name {
			if v, ok := g.info.Defs[id].(*types.Var); ok {
				found = v
				return false
			}
		}
		return true
	})
	return found
}

func freeIdents(expr string) ([]string, error) {
	e, err := parser.ParseExpr(expr)
	if err != nil {
		return nil, err
	}
	seen := map[string]bool{}
	var out []string
	var walk func(n ast.Node, bound map[string]bool)
	walk = func(n ast.Node, bound map[string]bool) {
		ast.Inspect(n, func(m ast.Node) bool {
			switch x := m.(type) {
			case *ast.SelectorExpr:
				walk(x.X, bound)
				return false
			case *ast.KeyValueExpr:
				walk(x.Value, bound)
				return false
			case *ast.Ident:
				if !seen[x.Name] {
					seen[x.Name] = true
					out = append(out, x.Name)
				}
			}
			return true
		})
	}
	walk(e, nil)
	return out, nil
}

// generate produces the synthetic file for one contract file and fills the clause metadata.
func (g *genCtx) generate(cf *ContractFile) (string, error) {
	var body strings.Builder
	seq := 0
	for _, c := range cf.Contracts {
		c.PkgPath = g.pkg.Path()
		fn, named, err := lookupTarget(g.pkg, c.Kind, c.Target)
		if err != nil {
			return "", fmt.Errorf("%s:%d: %v", cf.Path, c.Line, err)
		}
		c.Obj = fn
		sig := fn.Type().(*types.Signature)
		var tps *types.TypeParamList
		var params []nameType
		if c.Kind == "iface" {
			tps = named.TypeParams()
			c.RecvName = "n"
			params = append(params, nameType{"n", named.Obj().Name() + tparamArgs(tps)})
		} else {
			tps = sig.TypeParams()
			if sig.Recv() != nil {
				tps = sig.RecvTypeParams()
				rn := sig.Recv().Name()
				if rn == "" || rn == "_" {
					rn = "recv_"
				}
				c.RecvName = rn
				params = append(params, nameType{rn, g.typeStr(sig.Recv().Type())})
			}
		}
		for i := 0; i < sig.Params().Len(); i++ {
			p := sig.Params().At(i)
			n := p.Name()
			if n == "" || n == "_" {
				n = fmt.Sprintf("a%d", i)
			}
			ts := g.typeStr(p.Type())
			if sig.Variadic() && i == sig.Params().Len()-1 {
				ts = "[]" + g.typeStr(p.Type().(*types.Slice).Elem())
			}
			params = append(params, nameType{n, ts})
		}
		c.Params = nil
		for _, p := range params {
			c.Params = append(c.Params, p.name)
		}
		var results []nameType
		for i := 0; i < sig.Results().Len(); i++ {
			r := sig.Results().At(i)
			n := r.Name()
			if n == "" || n == "_" {
				if sig.Results().Len() == 1 {
					n = "result"
				} else {
					n = fmt.Sprintf("r%d", i)
				}
			}
			results = append(results, nameType{n, g.typeStr(r.Type())})
		}
		c.Results = nil
		for _, r := range results {
			c.Results = append(c.Results, r.name)
		}
		fd := g.findFuncDecl(fn)
		vars := append([]nameType(nil), params...)
		for _, v := range c.Vars {
			vars = append(vars, nameType{v.Name, v.Type})
		}
		known := map[string]bool{}
		for _, v := range vars {
			known[v.name] = true
		}
		tdecl := tparamList(g, tps)
		plist := func(ps []nameType) string {
			var s []string
			for _, p := range ps {
				s = append(s, p.name+" "+p.typ)
			}
			return strings.Join(s, ", ")
		}
		names := func(ps []nameType) []string {
			var s []string
			for _, p := range ps {
				s = append(s, p.name)
			}
			return s
		}
		for _, cl := range c.allCl {
			seq++
			cl.FnName = fmt.Sprintf("Zvc_%d_%s_%s", seq, sanitize(c.Target), sanitize(cl.Label))
			expr, pres := hoist(cl.Expr, "pre")
			var entries []string
			entryKw := "entry"
			if cl.Kind == "invariant" {
				// entry(E): the value of E when the loop was entered
				expr, entries = hoist(expr, "entry")
				for i := range entries {
					entries[i] = implTransform(entries[i])
				}
			}
			if cl.Kind == "siterequires" {
				// iter(E): the value of E at the start of the current iteration of the innermost loop under contract
				entryKw = "iter"
				expr, entries = hoist(expr, "iter")
				for i := range entries {
					entries[i] = implTransform(entries[i])
				}
			}
			expr, lpends := hoist(expr, "lpend")
			expr, lps := hoist(expr, "lp")
			expr = implTransform(expr)
			for i := range lpends {
				lpends[i] = implTransform(lpends[i])
			}
			for i := range pres {
				pres[i] = implTransform(pres[i])
			}
			for i := range lps {
				lps[i] = implTransform(lps[i])
			}
			l1 := append([]nameType(nil), vars...)
			var l3 []nameType
			switch cl.Kind {
			case "ensures":
				l3 = results
			case "invariant", "siterequires":
				// free identifiers that are locals of the target
				ids, err := freeIdents(expr)
				if err != nil {
					return "", fmt.Errorf("%s:%d: %v in %q", cf.Path, cl.Line, err, expr)
				}
				for _, en := range entries {
					more, err := freeIdents(en)
					if err != nil {
						return "", fmt.Errorf("%s:%d: %v in %q", cf.Path, cl.Line, err, en)
					}
					ids = append(ids, more...)
				}
				seenID := map[string]bool{}
				for _, id := range ids {
					if seenID[id] {
						continue
					}
					seenID[id] = true
					if known[id] || strings.HasPrefix(id, "pre_") || strings.HasPrefix(id, "lp_") || strings.HasPrefix(id, "lpend_") || strings.HasPrefix(id, "entry_") || strings.HasPrefix(id, "iter_") {
						continue
					}
					if g.pkg.Scope().Lookup(id) != nil || types.Universe.Lookup(id) != nil || cf.Imports[id] != "" {
						continue
					}
					if lv := g.localVar(fd, id); lv != nil {
						l3 = append(l3, nameType{id, g.typeStr(lv.Type())})
						continue
					}
					matched := false
					for _, r := range results { // named results are variables of the body too
						if r.name == id {
							l3 = append(l3, r)
							matched = true
						}
					}
					isTP := false
					if tps != nil {
						for i := 0; i < tps.Len(); i++ {
							if tps.At(i).Obj().Name() == id {
								isTP = true
							}
						}
					}
					if !matched && !isTP && c.Broken == "" {
						// the clause names a variable that the function does not have (any more): only this contract is
						// affected - its function is reported as not generated - instead of the whole load failing
						c.Broken = fmt.Sprintf("clause [%s] of %s (line %d) refers to %q, which is neither a parameter, a result, a local variable of the function nor a package-level name", cl.Tag(), c.Target, cl.Line, id)
					}
				}
				if c.Broken != "" {
					expr, pres, entries = "true", nil, nil
				}
			case "cbrequires", "cbensures":
				// parameters of the callback; they join level 1 (state at the call)
				cbsig := findCbSig(sig, cl.Callback)
				if cbsig == nil {
					return "", fmt.Errorf("%s:%d: no function-typed parameter %s", cf.Path, cl.Line, cl.Callback)
				}
				for i := 0; i < cbsig.Params().Len(); i++ {
					p := cbsig.Params().At(i)
					n := p.Name()
					if n == "" || n == "_" {
						n = fmt.Sprintf("cb%d", i)
					} else {
						n = "cb_" + n
					}
					l1 = append(l1, nameType{n, g.typeStr(p.Type())})
				}
				if cl.Kind == "cbensures" {
					for i := 0; i < cbsig.Results().Len(); i++ {
						l3 = append(l3, nameType{fmt.Sprintf("cbr%d", i), g.typeStr(cbsig.Results().At(i).Type())})
					}
				}
			}
			cl.P1 = names(l1)
			cl.P3 = names(l3)
			var w strings.Builder
			fmt.Fprintf(&w, "// %s %s [%s] line %d\n", c.Target, cl.Kind, cl.Tag(), cl.Line)
			use := func(ps []nameType) string {
				var s []string
				for _, p := range ps {
					s = append(s, "_ = "+p.name)
				}
				return strings.Join(s, "; ")
			}
			switch cl.Kind {
			case "requires", "cbrequires":
				cl.Levels = 1
				if len(lps) > 0 || len(lpends) > 0 || (len(pres) > 0 && cl.Kind == "requires") {
					return "", fmt.Errorf("%s:%d: pre()/lp() not allowed in %s", cf.Path, cl.Line, cl.Kind)
				}
				if len(pres) > 0 {
					// callback precondition that refers to the entry state of the enclosing function: two levels
					cl.Levels = 2
					np := len(vars)
					outer, inner := l1[:np], l1[np:]
					cl.P1, cl.P3 = names(outer), names(inner)
					fmt.Fprintf(&w, "func %s%s(%s) func(%s) bool {\n\t%s\n", cl.FnName, tdecl, plist(outer), plist(inner), use(outer))
					for i, p := range pres {
						fmt.Fprintf(&w, "\tpre_%d := %s\n", i, p)
					}
					fmt.Fprintf(&w, "\treturn func(%s) bool {\n\t\t%s\n\t\treturn %s\n\t}\n}\n", plist(inner), use(inner), expr)
					break
				}
				fmt.Fprintf(&w, "func %s%s(%s) bool {\n\t%s\n\treturn %s\n}\n", cl.FnName, tdecl, plist(l1), use(l1), expr)
			case "invariant", "siterequires":
				cl.Levels = 2
				if len(lps) > 0 || len(lpends) > 0 {
					return "", fmt.Errorf("%s:%d: lp() not allowed in invariant", cf.Path, cl.Line)
				}
				if len(entries) > 0 {
					// three levels: entry state of the function, state at loop entry, current state
					cl.Levels = 3
					fmt.Fprintf(&w, "func %s%s(%s) func(%s) func(%s) bool {\n\t%s\n", cl.FnName, tdecl, plist(l1), plist(l3), plist(l3), use(l1))
					for i, p := range pres {
						fmt.Fprintf(&w, "\tpre_%d := %s\n", i, p)
					}
					fmt.Fprintf(&w, "\treturn func(%s) func(%s) bool {\n\t\t%s\n", plist(l3), plist(l3), use(l3))
					for i, p := range entries {
						fmt.Fprintf(&w, "\t\t%s_%d := %s\n", entryKw, i, p)
					}
					fmt.Fprintf(&w, "\t\treturn func(%s) bool {\n\t\t\t%s\n\t\t\treturn %s\n\t\t}\n\t}\n}\n", plist(l3), use(l3), expr)
					break
				}
				fmt.Fprintf(&w, "func %s%s(%s) func(%s) bool {\n\t%s\n", cl.FnName, tdecl, plist(l1), plist(l3), use(l1))
				for i, p := range pres {
					fmt.Fprintf(&w, "\tpre_%d := %s\n", i, p)
				}
				fmt.Fprintf(&w, "\treturn func(%s) bool {\n\t\t%s\n\t\treturn %s\n\t}\n}\n", plist(l3), use(l3), expr)
			case "ensures", "cbensures":
				cl.Levels = 4
				fmt.Fprintf(&w, "func %s%s(%s) func() func() func(%s) bool {\n\t%s\n", cl.FnName, tdecl, plist(l1), plist(l3), use(l1))
				for i, p := range pres {
					fmt.Fprintf(&w, "\tpre_%d := %s\n", i, p)
				}
				fmt.Fprintf(&w, "\treturn func() func() func(%s) bool {\n", plist(l3))
				for i, p := range lps {
					fmt.Fprintf(&w, "\t\tlp_%d := %s\n", i, p)
				}
				fmt.Fprintf(&w, "\t\treturn func() func(%s) bool {\n", plist(l3))
				for i, p := range lpends {
					fmt.Fprintf(&w, "\t\t\tlpend_%d := %s\n", i, p)
				}
				fmt.Fprintf(&w, "\t\t\treturn func(%s) bool {\n\t\t\t\t%s\n\t\t\t\treturn %s\n\t\t\t}\n\t\t}\n\t}\n}\n", plist(l3), use(l3), expr)
			}
			body.WriteString(w.String())
			body.WriteString("\n")
		}
		// modifies items: each argument becomes a function returning the base object of the location
		genMods := func(items []string, l1 []nameType) ([]*ModItem, error) {
			var out []*ModItem
			for _, raw := range items {
				seq++
				mi := &ModItem{Raw: raw}
				mkfn := func(e string) string {
					seq++
					name := fmt.Sprintf("Zmod_%d_%s", seq, sanitize(c.Target))
					var s []string
					for _, p := range l1 {
						s = append(s, "_ = "+p.name)
					}
					fmt.Fprintf(&body, "func %s%s(%s) any {\n\t%s\n\treturn any(%s)\n}\n\n", name, tdecl, plist(l1), strings.Join(s, "; "), e)
					return name
				}
				switch {
				case raw == "*":
					mi.Kind, mi.Type, mi.Field = "whole", "*", "*"
				case strings.HasPrefix(raw, "[]") && strings.HasSuffix(raw, "::*"):
					// all elements of all slices of a basic element type
					et := strings.TrimSuffix(strings.TrimPrefix(raw, "[]"), "::*")
					w := map[string]int{"uint64": 64, "int64": 64, "int": 64, "uint": 64, "uint32": 32, "int32": 32, "uint8": 8, "byte": 8}[et]
					if w == 0 {
						// a named element type: `[]node.Node::*` (the array of all slices of that element type)
						nm := et
						if k := strings.Index(nm, "["); k >= 0 {
							nm = nm[:k]
						}
						if k := strings.LastIndex(nm, "."); k >= 0 {
							nm = nm[k+1:]
						}
						if nm == "" || !isIdentByte(nm[0]) {
							return nil, fmt.Errorf("unsupported element type in %q", raw)
						}
						mi.Kind, mi.Type, mi.Field = "wholekey", "", "E:"+nm
						out = append(out, mi)
						continue
					}
					if et == "byte" {
						et = "uint8"
					}
					mi.Kind, mi.Type, mi.Field = "wholekey", "", "E:"+et
				case raw == "map *":
					// the contents of every Go map (maps created by the function itself included)
					mi.Kind = "allmaps"
				case strings.HasPrefix(raw, "map "):
					// the contents of one Go map
					mi.Kind = "mapof"
					mi.ArgFns = []string{mkfn(strings.TrimSpace(strings.TrimPrefix(raw, "map ")))}
				case strings.HasPrefix(raw, "result."):
					// fields of the (freshly created) result object
					mi.Kind, mi.Field = "resultfield", strings.TrimPrefix(raw, "result.")
				case strings.Contains(raw, "::"):
					parts := strings.SplitN(raw, "::", 2)
					mi.Kind, mi.Type, mi.Field = "whole", parts[0], parts[1]
				case strings.HasPrefix(raw, "ghost_") && strings.HasSuffix(raw, ")"):
					j := strings.Index(raw, "(")
					if j < 0 || !strings.HasSuffix(raw, ")") {
						return nil, fmt.Errorf("bad ghost modifies item %q", raw)
					}
					mi.Ghost = raw[:j]
					inner := raw[j+1 : len(raw)-1]
					hasStar := false
					for _, a := range splitTop(inner, ',') {
						if strings.TrimSpace(a) == "*" {
							hasStar = true
						}
					}
					if hasStar {
						mi.Kind = "ghostall"
					} else {
						mi.Kind = "ghost"
						for _, a := range splitTop(inner, ',') {
							mi.ArgFns = append(mi.ArgFns, mkfn(strings.TrimSpace(a)))
						}
					}
				case strings.HasSuffix(raw, "[*]"):
					mi.Kind = "elems"
					mi.ArgFns = []string{mkfn(strings.TrimSuffix(raw, "[*]"))}
				case strings.HasSuffix(raw, "]"):
					j := strings.LastIndex(raw, "[")
					mi.Kind = "elem"
					mi.ArgFns = []string{mkfn(raw[:j]), mkfn(raw[j+1 : len(raw)-1])}
				default:
					j := strings.LastIndex(raw, ".")
					if j < 0 {
						return nil, fmt.Errorf("bad modifies item %q", raw)
					}
					mi.Kind, mi.Field = "field", raw[j+1:]
					mi.ArgFns = []string{mkfn(raw[:j])}
				}
				out = append(out, mi)
			}
			return out, nil
		}
		if c.Mods, err = genMods(c.Modifies, vars); err != nil {
			return "", fmt.Errorf("%s:%d: %v", cf.Path, c.Line, err)
		}
		if c.DelegateOn != "" {
			dm, derr := genMods([]string{"(" + c.DelegateOn + ").delegate"}, vars)
			if derr != nil {
				return "", fmt.Errorf("%s:%d: %v", cf.Path, c.Line, derr)
			}
			c.DelegateFn = dm[0].ArgFns[0]
		}
		for _, a := range c.DelegateArgs {
			dm, derr := genMods([]string{"ghost_delegateArg(" + a + ")"}, vars)
			if derr != nil {
				return "", fmt.Errorf("%s:%d: %v", cf.Path, c.Line, derr)
			}
			c.DelegateArgFns = append(c.DelegateArgFns, dm[0].ArgFns[0])
		}
		if c.OwnMods, err = genMods(c.OwnModifies, vars); err != nil {
			return "", fmt.Errorf("%s:%d: %v", cf.Path, c.Line, err)
		}
		for name, cb := range c.Cbs {
			l1 := append([]nameType(nil), vars...)
			cbsig := findCbSig(sig, name)
			if cbsig == nil {
				return "", fmt.Errorf("%s:%d: no function-typed parameter %s", cf.Path, c.Line, name)
			}
			for i := 0; i < cbsig.Params().Len(); i++ {
				p := cbsig.Params().At(i)
				n := p.Name()
				if n == "" || n == "_" {
					n = fmt.Sprintf("cb%d", i)
				} else {
					n = "cb_" + n
				}
				l1 = append(l1, nameType{n, g.typeStr(p.Type())})
			}
			if cb.Mods, err = genMods(cb.Modifies, l1); err != nil {
				return "", fmt.Errorf("%s:%d: %v", cf.Path, c.Line, err)
			}
		}
		_ = fd
	}
	for _, fi := range cf.FieldInvs {
		o := g.pkg.Scope().Lookup(fi.Ghost)
		if o == nil {
			return "", fmt.Errorf("%s:%d: fieldinv: no stub %s", cf.Path, fi.Line, fi.Ghost)
		}
		sig, ok := o.Type().(*types.Signature)
		if !ok || sig.Results().Len() != 1 {
			return "", fmt.Errorf("%s:%d: fieldinv: %s is not a ghost stub", cf.Path, fi.Line, fi.Ghost)
		}
		seq++
		fi.FnName = fmt.Sprintf("Zfinv_%d_%s", seq, sanitize(fi.Ghost))
		fmt.Fprintf(&body, "func %s(v %s) bool {\n\treturn %s\n}\n\n", fi.FnName, g.typeStr(sig.Results().At(0).Type()), implTransform(fi.Expr))
	}
	var out strings.Builder
	out.WriteString("//go:build verif\n\npackage " + g.pkg.Name() + "\n\n")
	text := body.String()
	var imps []string
	for name, path := range g.imports {
		if regexp.MustCompile(`\b` + regexp.QuoteMeta(name) + `\.`).MatchString(text) {
			imps = append(imps, fmt.Sprintf("\t%s %q\n", name, path))
		}
	}
	for name, path := range cf.Imports {
		if _, dup := g.imports[name]; dup {
			continue
		}
		if regexp.MustCompile(`\b` + regexp.QuoteMeta(name) + `\.`).MatchString(text) {
			imps = append(imps, fmt.Sprintf("\t%s %q\n", name, path))
		}
	}
	sort.Strings(imps)
	if len(imps) > 0 {
		out.WriteString("import (\n" + strings.Join(imps, "") + ")\n\n")
	}
	out.WriteString(text)
	return out.String(), nil
}

// findCbSig finds the signature of a callback: a function-typed parameter, or ("result:NAME") the function-typed
// parameter NAME of the function value the target returns (iterators).
func findCbSig(sig *types.Signature, name string) *types.Signature {
	if strings.HasPrefix(name, "result:") {
		if sig.Results().Len() != 1 {
			return nil
		}
		rs, ok := sig.Results().At(0).Type().Underlying().(*types.Signature)
		if !ok {
			return nil
		}
		want := strings.TrimPrefix(name, "result:")
		for i := 0; i < rs.Params().Len(); i++ {
			if rs.Params().At(i).Name() == want || rs.Params().Len() == 1 {
				cs, _ := rs.Params().At(i).Type().Underlying().(*types.Signature)
				return cs
			}
		}
		return nil
	}
	for i := 0; i < sig.Params().Len(); i++ {
		if sig.Params().At(i).Name() == name {
			cs, _ := sig.Params().At(i).Type().Underlying().(*types.Signature)
			return cs
		}
	}
	return nil
}

func sanitize(s string) string {
	var b strings.Builder
	for i := 0; i < len(s); i++ {
		if isIdentByte(s[i]) {
			b.WriteByte(s[i])
		} else if s[i] == '.' || s[i] == '-' {
			b.WriteByte('_')
		}
	}
	return b.String()
}

func readFileOr(path string) []byte {
	b, err := os.ReadFile(path)
	if err != nil {
		return nil
	}
	return b
}
