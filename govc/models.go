package main

// Built-in models: Go builtins, sync / sync/atomic, pure library functions, the concurrent table
// (assumed contract A-table), Go maps, channels, user callbacks.

import (
	"fmt"
	"go/token"
	"go/types"
	"os"
	"strings"

	"golang.org/x/tools/go/ssa"
)

func (x *ctx) builtin(st *state, fr *frame, name string, args []val, c *ssa.CallCommon, rt types.Type) []outcome {
	switch name {
	case "len", "cap":
		at := c.Args[0].Type().Underlying()
		switch at.(type) {
		case *types.Slice:
			l := x.sliceLen(st, args[0].t)
			st.define(x.binop(token.GEQ, l, mkbv(0, 64), types.Typ[types.Int]).s)
			if name == "cap" {
				cp := x.freshTerm("cap", sInt)
				st.define(x.binop(token.GEQ, cp, l, types.Typ[types.Int]).s)
				return x.ret1(st, scalar(cp))
			}
			return x.ret1(st, scalar(l))
		case *types.Map:
			return x.ret1(st, scalar(x.mapLen(st, args[0].t)))
		}
		l := x.freshTerm("len", sInt)
		st.define(x.binop(token.GEQ, l, mkbv(0, 64), types.Typ[types.Int]).s)
		return x.ret1(st, scalar(l))
	case "min", "max":
		t := c.Args[0].Type()
		cur := x.asTerm(args[0], t)
		for i := 1; i < len(args); i++ {
			o := x.asTerm(args[i], t)
			op := token.LSS
			if name == "max" {
				op = token.GTR
			}
			cur = ite(x.binop(op, o, cur, t).s, o, cur)
		}
		return x.ret1(st, scalar(cur))
	case "append":
		return x.ret1(st, x.appendOp(st, args, c))
	case "copy":
		if sl, ok := c.Args[0].Type().Underlying().(*types.Slice); ok {
			x.havocKey(st, x.elemKey(sl.Elem()))
		}
		return x.ret1(st, scalar(x.freshTerm("copied", sInt)))
	case "delete":
		x.mapDelete(st, args[0].t, x.asTerm(args[1], c.Args[1].Type()), c.Args[0].Type())
		return x.ret1(st, val{})
	case "recover":
		if st.recoverable {
			st.recoverable, st.recovered = false, true
			r := x.freshTerm("recovered", sRef)
			st.define(not(eq(r, null)))
			return x.ret1(st, scalar(r))
		}
		return x.ret1(st, scalar(null))
	case "print", "println", "close", "clear":
		return x.ret1(st, val{})
	}
	x.fail("builtin %s not modelled", name)
	return nil
}

func (x *ctx) appendOp(st *state, args []val, c *ssa.CallCommon) val {
	sl := c.Args[0].Type().Underlying().(*types.Slice)
	r := x.freshTerm("appended", sRef)
	st.define(not(eq(r, null)))
	x.assumeFreshRef(st, r)
	oldLen := x.sliceLen(st, args[0].t)
	st.define(x.binop(token.GEQ, oldLen, mkbv(0, 64), types.Typ[types.Int]).s)
	addLen := x.sliceLen(st, args[1].t)
	n, known := x.knownLen[args[1].t.s]
	la := x.arr(st, "Len", false, sInt)
	if known {
		x.setArr(st, "Len", fmt.Sprintf("(store %s %s (bvadd %s %s))", la, r.s, oldLen.s, bvlit(uint64(n), 64)))
	} else {
		x.setArr(st, "Len", fmt.Sprintf("(store %s %s (bvadd %s %s))", la, r.s, oldLen.s, addLen.s))
	}
	if es, ok := x.leafSort(sl.Elem()); ok {
		key := x.elemKey(sl.Elem())
		ea := x.arr(st, key, true, es)
		if known {
			cur := fmt.Sprintf("(select %s %s)", ea, args[0].t.s)
			for j := 0; j < n; j++ {
				cur = fmt.Sprintf("(store %s (bvadd %s %s) (select (select %s %s) %s))", cur, oldLen.s, bvlit(uint64(j), 64), ea, args[1].t.s, bvlit(uint64(j), 64))
			}
			x.setArr(st, key, fmt.Sprintf("(store %s %s %s)", ea, r.s, cur))
		} else {
			fe := x.freshName("appended_elems")
			x.declare(fe, fmt.Sprintf("(Array (_ BitVec 64) %s)", es.name))
			x.setArr(st, key, fmt.Sprintf("(store %s %s %s)", ea, r.s, fe))
		}
	}
	return scalar(r)
}

// ---------------------------------------------------------------- invoke

func (x *ctx) invoke(st *state, fr *frame, recv val, m *types.Func, args []val, recvT types.Type, rt types.Type) []outcome {
	if m.Name() == "AsPointer" && len(args) == 0 {
		// AsPointer is the identity on references (unsafe.Pointer casts are the identity)
		return x.ret1(st, scalar(x.asTerm(recv, recvT)))
	}
	if con := x.w.ifaceContractOf(m); con != nil {
		if x.nodeT != nil && x.isNodeIface(recvT) {
			// conformance mode: calls on the concrete type resolve statically
		}
		return x.contractCall(st, fr, con, nil, append([]val{recv}, args...), rt)
	}
	// the receiver is an object allocated by this execution: its dynamic type is known, the call resolves statically
	if recv.t.s != "" {
		if at, ok := x.lastAllocType[recv.t.s]; ok {
			if named, ok := at.(*types.Named); ok {
				named = named.Origin()
				for i := 0; i < named.NumMethods(); i++ {
					if named.Method(i).Name() == m.Name() {
						if f := x.w.prog.FuncValue(named.Method(i)); f != nil {
							return x.callStatic(st, fr, f, nil, append([]val{recv}, args...), rt)
						}
					}
				}
			}
		}
	}
	// interfaces without contract: user-callback rule
	return x.userCallback(st, fr, "invoke:"+m.FullName(), m.Name(), rt, args...)
}

func (x *ctx) invokeModKeys(c *ssa.CallCommon) ([]string, bool) { return nil, false }

// userCallback: arbitrary result, heap unchanged, may panic (when the contract asks for panic paths).
func (x *ctx) userCallback(st *state, fr *frame, what, short string, rt types.Type, args ...val) []outcome {
	x.assumed["A-callbacks: "+what+" returns an arbitrary result, does not re-enter the cache"] = true
	var ret val
	if rt != nil {
		if tup, ok := rt.(*types.Tuple); !ok || tup.Len() > 0 {
			ret = x.freshVal("cbres_"+short, rt)
		}
	}
	if x.spec == 0 && short != "" {
		// ghost log of user-callback invocations: number of calls and last result
		cnt := x.ghostGet(st, "ghost_calls_"+short, nil, bvSort(64), nil)
		x.ghostWrite(st, "ghost_calls_"+short, nil, x.binop(token.ADD, cnt, mkbv(1, 64), types.Typ[types.Int]))
		if ret.t.s != "" {
			x.ghostWrite(st, "ghost_ret_"+short, nil, ret.t)
		} else if ret.agg && len(ret.fields) <= 4 {
			for i, f := range ret.fields {
				if f.t.s != "" {
					x.ghostWrite(st, fmt.Sprintf("ghost_ret_%s_%d", short, i), nil, f.t)
				}
			}
		}
		var leaves []term
		okL := true
		for _, a := range args {
			flattenPlain(a, &leaves, &okL)
		}
		if okL && len(leaves) <= 8 {
			for i, l := range leaves {
				x.ghostWrite(st, fmt.Sprintf("ghost_arg_%s_%d", short, i), nil, l)
			}
		}
	}
	outs := []outcome{{st: st, ret: ret}}
	if x.spec == 0 && x.con != nil && x.con.Flags["panics"] {
		ps := st.clone()
		ps.sig = append(ps.sig, "panic:"+what)
		outs = append(outs, outcome{st: ps, panic: true})
	}
	return outs
}

func (x *ctx) unknownCall(st *state, fr *frame, fnv val, args []val, c *ssa.CallCommon, rt types.Type) []outcome {
	switch fnv.origin {
	case "cache.executor":
		// sequential model of the executor: run the task now ([seq]: same-goroutine executor); [itf]: run now or not at all here
		x.assumed["executor modelled sequentially (run now"+map[bool]string{true: " / not run", false: ""}[x.mode == "itf"]+")"] = true
		if len(args) == 1 && args[0].fn != nil {
			outs := x.callValue(st.clone(), fr, args[0], nil, nil, types.NewTuple())
			if x.mode == "itf" {
				outs = append(outs, outcome{st: st})
			}
			return outs
		}
	}
	if c != nil && len(args) == 1 && args[0].fn != nil {
		if sig, ok := c.Value.Type().Underlying().(*types.Signature); ok && sig.Params().Len() == 1 && sig.Results().Len() == 0 {
			if ys, ok := sig.Params().At(0).Type().Underlying().(*types.Signature); ok && ys.Results().Len() == 1 {
				// opaque iterator (iter.Seq): zero or more calls of the loop body on arbitrary non-nil elements
				x.assumed["iterator-call rule: an opaque iter.Seq calls its yield function on arbitrary non-nil elements"] = true
				skip := st.clone()
				skip.sig = append(skip.sig, "iter:0")
				x.havocClosureEffects(st, fr, args[0])
				var els []val
				for i := 0; i < ys.Params().Len(); i++ {
					e := x.freshVal("iterated", ys.Params().At(i).Type())
					if e.t.s != "" && e.t.srt == sRef {
						st.define(not(eq(e.t, null)))
					}
					els = append(els, e)
				}
				if fnv.iter != nil {
					// elements of an iterator under contract satisfy its element contract
					it := fnv.iter
					for _, cl := range it.spec.Requires {
						env := func(name string, t types.Type) (val, bool) {
							np := len(cl.P1) - len(els)
							for i := np; i < len(cl.P1); i++ {
								if cl.P1[i] == name && i-np < len(els) {
									return els[i-np], true
								}
							}
							for i, p := range it.con.Params {
								if p == name && i < len(it.args) {
									return it.args[i], true
								}
							}
							return val{}, false
						}
						g := x.clauseL1(st, it.con, cl, env)
						st.assume(g.t.s)
					}
				}
				st.sig = append(st.sig, "iter:1")
				res := []outcome{{st: skip}}
				// iter(E) in a site clause inside the loop body: the value of E when this (arbitrary) iteration starts
				snapIter := st.clone()
				delete(snapIter.snaps, "iter")
				st.snaps["iter"] = snapIter
				for _, o := range x.callValue(st, fr, args[0], els, nil, types.Typ[types.Bool]) {
					if o.panic {
						res = append(res, o)
						continue
					}
					x.havocClosureEffects(o.st, fr, args[0])
					res = append(res, outcome{st: o.st})
				}
				return res
			}
		}
	}
	what := fnv.origin
	if what == "" {
		what = "function value"
		if c != nil {
			what = "function value " + sourceName(c.Value)
		}
	}
	if x.w.fieldCallHook != nil {
		if outs, ok := x.w.fieldCallHook(x, st, fr, fnv, args, rt); ok {
			return outs
		}
	}
	short := what
	if j := strings.LastIndex(short, "."); j >= 0 {
		short = short[j+1:]
	}
	if strings.Contains(short, " ") {
		short = short[strings.LastIndex(short, " ")+1:]
	}
	return x.userCallback(st, fr, what, short, rt, args...)
}

// ---------------------------------------------------------------- external functions

var pureExternal = map[string]bool{
	"hash/maphash.Comparable": true, "math/bits.OnesCount64": true, "math/bits.TrailingZeros64": true, "math/bits.LeadingZeros64": true,
	"math/bits.Len64": true, "math/bits.OnesCount32": true, "math/bits.TrailingZeros32": true, "math/bits.Len32": true, "cmp.Compare": true,
	"math.Abs": true, "math.Floor": true, "math.Ceil": true, "time.Unix": true, "errors.Is": true,
	"github.com/maypok86/otter/v2/internal/xruntime.Hasher.Hash": true,
}

func flatten(x *ctx, v val, out *[]term) {
	if v.agg {
		for _, f := range v.fields {
			flatten(x, f, out)
		}
		return
	}
	if v.t.s != "" {
		*out = append(*out, v.t)
		return
	}
	*out = append(*out, x.asTerm(v, nil))
}

func (x *ctx) externalCall(st *state, fr *frame, key string, callee *ssa.Function, args []val, rt types.Type) []outcome {
	if pureExternal[key] {
		var ts []term
		for _, a := range args {
			flatten(x, a, &ts)
		}
		rs, ok := x.leafSort(rt)
		if !ok {
			return x.ret1(st, x.freshVal("ext", rt))
		}
		var ss []srtT
		var as []string
		for _, t := range ts {
			ss = append(ss, t.srt)
			as = append(as, t.s)
		}
		fn := "uf_" + symName(key)
		for _, s := range ss {
			fn += "_" + symName(s.name)
		}
		x.declareFun(fn, ss, rs)
		x.assumed["uninterpreted function for "+key] = true
		r := term{fmt.Sprintf("(%s %s)", fn, strings.Join(as, " ")), rs}
		if len(as) == 0 {
			r = term{fn, rs}
		}
		if key == "errors.Is" && len(ts) == 2 {
			// errors.Is(nil, t) is false for non-nil t; errors.Is(e, e) is true
			if ts[1].srt.name == ts[0].srt.name {
				st.define(implies(and(eq(ts[0], null), not(eq(ts[1], null))), not(r.s)))
				st.define(implies(and(eq(ts[0], ts[1])), r.s))
			} else {
				st.define(implies(eq(ts[0], null), not(r.s))) // the target is a non-nil constant error value
			}
		}
		return x.ret1(st, scalar(r))
	}
	x.assumed["external function "+key+": arbitrary result, heap unchanged"] = true
	var ret val
	if rt != nil {
		if tup, ok := rt.(*types.Tuple); !ok || tup.Len() > 0 {
			ret = x.freshVal("ext_"+callee.Name(), rt)
		}
	}
	return x.ret1(st, ret)
}

func (x *ctx) recvLoc(st *state, v val, t types.Type) *loc {
	if v.ptr != nil {
		return v.ptr
	}
	et := deref(t)
	return &loc{base: v.t, key: "deref." + structName(et), typ: et}
}

func (x *ctx) rw(st *state, l *loc, s srtT) (read func() term, write func(term)) {
	if l.cell > 0 {
		return func() term {
				v := x.load(st, val{ptr: l}, l.typ)
				if v.t.s == "" {
					return x.zeroOf(s)
				}
				return v.t
			}, func(t term) {
				x.store(st, val{ptr: l}, scalar(t), l.typ)
			}
	}
	return func() term { return x.readLeafHeap(st, l, l.key, s) }, func(t term) { x.writeLeafHeap(st, l, l.key, t) }
}

func (x *ctx) zeroOf(s srtT) term {
	switch {
	case s.isBool():
		return mkbool(false)
	case s.isBV():
		return mkbv(0, s.w)
	}
	n := "zero_" + s.name
	x.declare(n, s.name)
	return term{n, s}
}

// model implements library and table functions; ok=false when there is no model for key.
func (x *ctx) model(st *state, fr *frame, key string, callee *ssa.Function, args []val, rt types.Type) ([]outcome, bool) {
	if key == "sync/atomic.LoadPointer" && len(args) == 1 && args[0].ptr != nil {
		// (sequential model of the function forms, as for the method forms below)
		return x.ret1(st, x.load(st, args[0], types.Typ[types.UnsafePointer])), true
	}
	if key == "sync/atomic.StorePointer" && len(args) == 2 && args[0].ptr != nil {
		x.store(st, args[0], args[1], types.Typ[types.UnsafePointer])
		return x.ret1(st, val{}), true
	}
	if strings.HasSuffix(key, "internal/hashmap.NewWithSize") || strings.HasSuffix(key, "internal/hashmap.New") {
		// A-table: a new table is a fresh object that holds no entry
		x.assumed["A-table: internal/hashmap Get/Compute/Range/Size behave as an atomic per-key map (assumed, see DESIGN §4)"] = true
		inst := callee
		if x.lastInst != nil && x.lastInst.Origin() == callee {
			inst = x.lastInst
		}
		targs := inst.TypeArgs()
		if len(targs) < 3 {
			x.fail("hashmap constructor: type arguments unknown at %s", key)
		}
		ks, _ := x.leafSort(targs[0])
		m := x.freshTerm("table", sRef)
		st.define(not(eq(m, null)))
		x.assumeFreshRef(st, m)
		name := x.tblName(targs[2])
		gk := x.ghostKey(name)
		hi, ok := x.hinfo[gk]
		if !ok {
			hi = heapInfo{elem: sRef, ksorts: []srtT{sRef, ks}}
			x.hinfo[gk] = hi
		}
		cur := x.ghostArr(st, name, hi)
		n := x.freshName("G_" + strings.TrimPrefix(name, "ghost_"))
		x.declare(n, ghostSort(hi))
		st.define(fmt.Sprintf("(= %s (store %s %s ((as const (Array %s %s)) %s)))", n, cur, m.s, ks.name, sRef.name, null.s))
		st.heap[gk] = n
		return x.ret1(st, scalar(m)), true
	}
	if strings.HasPrefix(key, "sync/atomic.") {
		parts := strings.Split(strings.TrimPrefix(key, "sync/atomic."), ".")
		if len(parts) != 2 {
			return nil, false
		}
		s, ok := opaqueSort(deref(callee.Signature.Recv().Type()))
		if !ok {
			return nil, false
		}
		l := x.recvLoc(st, args[0], callee.Signature.Recv().Type())
		rd, wr := x.rw(st, l, s)
		switch parts[1] {
		case "Load":
			return x.ret1(st, scalar(rd())), true
		case "Store":
			wr(x.asTerm(args[1], callee.Signature.Params().At(0).Type()))
			return x.ret1(st, val{}), true
		case "Add":
			n := x.binop(token.ADD, rd(), args[1].t, types.Typ[types.Uint64])
			wr(n)
			return x.ret1(st, scalar(n)), true
		case "Swap":
			o := rd()
			wr(x.asTerm(args[1], callee.Signature.Params().At(0).Type()))
			return x.ret1(st, scalar(o)), true
		case "CompareAndSwap":
			cur := rd()
			ok := eq(cur, args[1].t)
			wr(ite(ok, args[2].t, cur))
			return x.ret1(st, scalar(term{ok, sBool})), true
		}
		return nil, false
	}
	switch key {
	case "strings.Builder.WriteString", "strings.Builder.String":
		// the builder is one cell holding the content written so far; concatenation of concrete strings is computed,
		// anything else yields an arbitrary string
		sS := srtT{"Str", 0}
		x.declareSort("Str")
		l := x.recvLoc(st, args[0], callee.Signature.Recv().Type())
		rd, wr := x.rw(st, l, sS)
		if key == "strings.Builder.String" {
			return x.ret1(st, scalar(rd())), true
		}
		cur, ok1 := concreteStr(rd())
		add, ok2 := concreteStr(args[1].t)
		if ok1 && ok2 {
			wr(x.strConst(cur+add, sS))
		} else {
			wr(x.freshTerm("built", sS))
		}
		return x.ret1(st, val{agg: true, fields: []val{scalar(x.freshTerm("n", bvSort(64))), scalar(null)}}), true
	case "sync.Mutex.Lock", "sync.RWMutex.Lock", "sync.RWMutex.RLock":
		l := x.recvLoc(st, args[0], callee.Signature.Recv().Type())
		_, wr := x.rw(st, l, sBool)
		wr(mkbool(true))
		return x.ret1(st, val{}), true
	case "sync.Mutex.Unlock", "sync.RWMutex.Unlock", "sync.RWMutex.RUnlock":
		l := x.recvLoc(st, args[0], callee.Signature.Recv().Type())
		_, wr := x.rw(st, l, sBool)
		wr(mkbool(false))
		return x.ret1(st, val{}), true
	case "sync.Mutex.TryLock":
		l := x.recvLoc(st, args[0], callee.Signature.Recv().Type())
		rd, wr := x.rw(st, l, sBool)
		held := rd()
		got := x.freshTerm("trylock", sBool)
		st.define(implies(got.s, not(held.s)))
		wr(term{or(held.s, got.s), sBool})
		return x.ret1(st, scalar(got)), true
	case "sync.WaitGroup.Add":
		l := x.recvLoc(st, args[0], callee.Signature.Recv().Type())
		rd, wr := x.rw(st, l, bvSort(64))
		wr(x.binop(token.ADD, rd(), args[1].t, types.Typ[types.Int]))
		return x.ret1(st, val{}), true
	case "sync.WaitGroup.Done":
		l := x.recvLoc(st, args[0], callee.Signature.Recv().Type())
		rd, wr := x.rw(st, l, bvSort(64))
		wr(x.binop(token.SUB, rd(), mkbv(1, 64), types.Typ[types.Int]))
		// ghost: number of Done calls per wait group owner
		if l.cell == 0 {
			cnt := x.ghostGet(st, "ghost_wgDone", []srtT{sRef}, bvSort(64), []term{l.base})
			x.ghostWrite(st, "ghost_wgDone", []term{l.base}, x.binop(token.ADD, cnt, mkbv(1, 64), types.Typ[types.Int]))
			x.ghostWrite(st, "ghost_released", []term{l.base}, mkbool(true))
		}
		return x.ret1(st, val{}), true
	case "sync.WaitGroup.Wait":
		return x.ret1(st, val{}), true
	case "sync.Once.Do":
		return x.callValue(st, fr, args[1], nil, nil, types.NewTuple()), true
	case "sync.Pool.Get":
		return x.ret1(st, scalar(x.freshTerm("pooled", sRef))), true
	case "sync.Pool.Put", "runtime.Gosched", "runtime.KeepAlive":
		return x.ret1(st, val{}), true
	case "errors.New", "fmt.Errorf", "errors.Join":
		r := x.freshTerm("err", sRef)
		st.define(not(eq(r, null)))
		return x.ret1(st, scalar(r)), true
	case "errors.As":
		// the target is assigned when the result is true; modelled as: arbitrary result, target cell havocked
		ok := x.freshTerm("errAs", sBool)
		if args[1].ptr != nil && args[1].ptr.cell > 0 {
			nv := x.freshTerm("errAsTarget", sRef)
			old := x.load(st, args[1], args[1].ptr.typ)
			if old.t.s != "" {
				st.cells[args[1].ptr.cell] = scalar(ite(ok.s, nv, old.t))
			}
			st.define(implies(ok.s, not(eq(nv, null))))
		}
		st.define(implies(eq(args[0].t, null), not(ok.s)))
		return x.ret1(st, scalar(ok)), true
	case "context.WithoutCancel", "context.Background":
		r := x.freshTerm("ctx", sRef)
		return x.ret1(st, scalar(r)), true
	case "time.Duration.Nanoseconds":
		return x.ret1(st, args[0]), true
	case "os.Create", "os.OpenFile":
		// the file handle is an arbitrary reference; ghost_fileTruncated(f) records whether the open truncated the file
		// (os.Create always does; os.OpenFile when O_TRUNC is among the flags)
		x.assumed["os: Create truncates the named file, OpenFile does when O_TRUNC is set; the file's other behaviour is not modelled"] = true
		f := x.freshTerm("file", sRef)
		e := x.freshTerm("err", sRef)
		st.define(fmt.Sprintf("(= (= %s %s) %s)", e.s, null.s, not(eq(f, null))))
		trunc := mkbool(true)
		if key == "os.OpenFile" {
			fl := x.asTerm(args[1], types.Typ[types.Int])
			trunc = term{not(eq(term{fmt.Sprintf("(bvand %s %s)", fl.s, bvlit(uint64(os.O_TRUNC), 64)), bvSort(64)}, mkbv(0, 64))), sBool}
		}
		x.ghostWrite(st, "ghost_fileTruncated", []term{f}, trunc)
		return x.ret1(st, val{agg: true, fields: []val{scalar(f), scalar(e)}}), true
	case "encoding/gob.Decoder.Decode":
		// decoding receives an arbitrary value W (what the wire holds is not modelled) or fails. As documented for
		// encoding/gob, fields that hold the zero value are not transmitted and the decoder leaves the corresponding
		// fields of the target untouched: target.f = W.f unless W.f is zero, in which case target.f keeps its content.
		// The wire value of the last Decode is recorded in ghost_decoded_<Field>.
		x.assumed["encoding/gob: Decode receives an arbitrary value (zero-valued fields leave the target's field untouched) or returns an error; Encode returns an arbitrary error"] = true
		if len(args) == 2 {
			tgt := args[1]
			switch {
			case tgt.ptr != nil && tgt.ptr.cell > 0:
				t := x.cellRootType[tgt.ptr.cell]
				w := x.freshVal("decoded", t)
				old, had := st.cells[tgt.ptr.cell]
				nv := w
				if had {
					nv = x.gobMerge(w, old, x.zeroVal(t))
				}
				st.cells[tgt.ptr.cell] = nv
				if stT, ok := t.Underlying().(*types.Struct); ok && w.agg && x.spec == 0 {
					for i := 0; i < stT.NumFields() && i < len(w.fields); i++ {
						if w.fields[i].t.s != "" {
							x.ghostWrite(st, "ghost_decoded_"+stT.Field(i).Name(), nil, w.fields[i].t)
						}
					}
				}
			case tgt.t.s != "" && x.lastAllocType[tgt.t.s] != nil:
				t := x.lastAllocType[tgt.t.s]
				w := x.freshVal("decoded", t)
				l := &loc{base: tgt.t, key: structName(t), typ: t}
				old := x.readHeap(st, l, structName(t), t)
				x.writeHeap(st, l, structName(t), t, x.gobMerge(w, old, x.zeroVal(t)))
				if stT, ok := t.Underlying().(*types.Struct); ok && w.agg && x.spec == 0 {
					for i := 0; i < stT.NumFields() && i < len(w.fields); i++ {
						if w.fields[i].t.s != "" {
							x.ghostWrite(st, "ghost_decoded_"+stT.Field(i).Name(), nil, w.fields[i].t)
						}
					}
				}
			}
		}
		return x.ret1(st, scalar(x.freshTerm("decodeErr", sRef))), true
	}
	if strings.HasSuffix(key, "internal/hashmap.NewWithSize") || strings.HasSuffix(key, "internal/hashmap.New") {
		// A-table: a new table is a fresh object (its content, the ghost map, is unconstrained here: no contract
		// under verification reads the content of a table it has just created)
		r := x.freshTerm("new_table", sRef)
		st.assume(not(eq(r, null)))
		if x.spec == 0 {
			x.assumeFreshRef(st, r)
		}
		return x.ret1(st, scalar(r)), true
	}
	if strings.HasSuffix(key, "internal/hashmap.Map.Get") || strings.HasSuffix(key, "internal/hashmap.Map.Compute") ||
		strings.HasSuffix(key, "internal/hashmap.Map.Range") || strings.HasSuffix(key, "internal/hashmap.Map.Size") {
		return x.tableModel(st, fr, key[strings.LastIndex(key, ".")+1:], callee, args, rt), true
	}
	return nil, false
}

func (x *ctx) modelModKeys(key string, callee *ssa.Function, c *ssa.CallCommon) ([]string, bool) {
	if strings.HasPrefix(key, "sync/atomic.") || strings.HasPrefix(key, "sync.") {
		if len(c.Args) == 0 {
			return nil, true
		}
		ms := &modSet{keys: map[string]bool{}, cells: map[int]bool{}}
		x.addrKey(&frame{regs: map[ssa.Value]val{}}, c.Args[0], ms)
		var ks []string
		for k := range ms.keys {
			ks = append(ks, k)
		}
		if strings.HasSuffix(key, "WaitGroup.Done") {
			ks = append(ks, "G:wgDone")
		}
		return ks, true
	}
	if strings.HasSuffix(key, "internal/hashmap.Map.Compute") {
		return []string{"G:tbl", "G:calls", "G:lpCur", "G:lpNew", "G:lpCount", "G:clpCur", "G:clpNew", "G:clpCount"}, false // plus the callback's effects: handled by scanning the closure
	}
	return nil, false
}

// ---------------------------------------------------------------- the concurrent table (assumed contract A-table)

// interfere havocs the state other goroutines may change between two critical sections ([itf] mode).
func (x *ctx) interfere(st *state) {
	if x.mode != "itf" {
		return
	}
	for _, k := range x.w.itfKeys {
		if x.critical > 0 && (k == "G:calls" || k == "G:tbl") {
			// inside a critical section of the node table the bucket lock of the key protects its entry in both
			// tables (every writer of the call table entry runs under that lock); entries of other keys are not read there
			continue
		}
		if _, ok := x.hinfo[k]; !ok && strings.HasPrefix(k, "G:") {
			if stub := x.w.findStub("ghost_" + strings.TrimPrefix(k, "G:")); stub != nil {
				x.ghostInfo("ghost_"+strings.TrimPrefix(k, "G:"), stub.Signature)
			}
		}
		x.havocKey(st, k)
	}
	st.sig = append(st.sig, "itf")
}

func (x *ctx) tblSorts(callee *ssa.Function) (ks srtT, keyT types.Type, valT types.Type) {
	// Map[K, V, N]: receiver type arguments (of the instantiated method when known)
	if x.lastInst != nil && x.lastInst.Origin() == callee && x.lastInst.Signature.Recv() != nil {
		callee = x.lastInst
	}
	rt := deref(callee.Signature.Recv().Type()).(*types.Named)
	targs := rt.TypeArgs()
	keyT = targs.At(0)
	valT = targs.At(2)
	ks, _ = x.leafSort(keyT)
	return
}

func (x *ctx) tblName(valT types.Type) string {
	if _, ok := valT.Underlying().(*types.Pointer); ok {
		return "ghost_calls"
	}
	return "ghost_tbl"
}

func (x *ctx) tblGet(st *state, m, k term, valT types.Type) term {
	return x.ghostGet(st, x.tblName(valT), []srtT{sRef, k.srt}, sRef, []term{m, k})
}

// tblWF: a stored entry carries its key.
func (x *ctx) tblWF(st *state, n term, k term, valT types.Type) string {
	return implies(not(eq(n, null)), eq(x.entryKey(st, n, k.srt, valT), k))
}

func (x *ctx) entryKey(st *state, n term, ks srtT, valT types.Type) term {
	if p, ok := valT.Underlying().(*types.Pointer); ok {
		// *call[K, V]: concrete field key
		l := &loc{base: n}
		return x.readLeafHeap(st, l, structName(p.Elem())+".key", ks)
	}
	return x.ghostGet(st, "ghost_key", []srtT{sRef}, ks, []term{n})
}

func (x *ctx) tableModel(st *state, fr *frame, op string, callee *ssa.Function, args []val, rt types.Type) []outcome {
	x.assumed["A-table: internal/hashmap Get/Compute/Range/Size behave as an atomic per-key map (assumed, see DESIGN §4)"] = true
	m := args[0].t
	_, _, valT := x.tblSorts(callee)
	switch op {
	case "Get":
		k := x.asTerm(args[1], callee.Signature.Params().At(0).Type())
		x.interfere(st)
		r := x.tblGet(st, m, k, valT)
		st.define(x.tblWF(st, r, k, valT))
		if x.tblName(valT) == "ghost_tbl" {
			st.snaps["lp"] = st.clone()
		}
		out := st
		x.interfere(out)
		return x.ret1(out, scalar(r))
	case "Size":
		r := x.freshTerm("tblsize", sInt)
		st.define(x.binop(token.GEQ, r, mkbv(0, 64), types.Typ[types.Int]).s)
		return x.ret1(st, scalar(r))
	case "Compute":
		k := x.asTerm(args[1], callee.Signature.Params().At(0).Type())
		x.interfere(st)
		cur := x.tblGet(st, m, k, valT)
		st.define(x.tblWF(st, cur, k, valT))
		isNodeTbl := x.tblName(valT) == "ghost_tbl"
		if isNodeTbl {
			st.snaps["lp"] = st.clone()
		}
		if isNodeTbl {
			x.critical++
		}
		outs := x.callValue(st, fr, args[2], []val{scalar(cur)}, nil, nil)
		if isNodeTbl {
			x.critical--
		}
		var res []outcome
		for _, o := range outs {
			if o.panic {
				res = append(res, o)
				continue
			}
			nv := x.asTerm(o.ret, valT)
			x.oblige(o.st, "table-key-wf", "", "Compute", x.tblWF(o.st, nv, k, valT), "a stored entry must carry the key it is stored under")
			x.ghostWrite(o.st, x.tblName(valT), []term{m, k}, nv)
			pfx := "ghost_lp"
			if !isNodeTbl {
				pfx = "ghost_clp"
			}
			x.ghostWrite(o.st, pfx+"Cur", []term{m}, cur)
			x.ghostWrite(o.st, pfx+"New", []term{m}, nv)
			cnt := x.ghostGet(o.st, pfx+"Count", []srtT{sRef}, bvSort(64), []term{m})
			x.ghostWrite(o.st, pfx+"Count", []term{m}, x.binop(token.ADD, cnt, mkbv(1, 64), types.Typ[types.Int]))
			if isNodeTbl {
				o.st.snaps["lpend"] = o.st.clone()
			}
			x.interfere(o.st)
			res = append(res, outcome{st: o.st, ret: scalar(nv)})
		}
		return res
	case "Range":
		// iterator-call rule: zero or more calls of f on entries that were in the table at some instant during the call
		// invariants of the repeated invocation (`loop <closure>:0: invariant ...` in the contract under verification)
		var rinv []*Clause
		if x.spec == 0 && x.con != nil && args[1].fn != nil {
			if ls := x.con.ClosureLoops[args[1].fn.Name()+":0"]; ls != nil {
				rinv = ls.Invariants
				if x.siteHit == nil {
					x.siteHit = map[string]bool{}
				}
				x.siteHit["range:"+args[1].fn.Name()] = true
			}
		}
		evalRI := func(s *state, cl *Clause) string {
			penv := func(n string, t types.Type) (val, bool) { v, ok := x.params[n]; return v, ok }
			lenv := func(n string, t types.Type) (val, bool) {
				for i := len(x.frames) - 1; i >= 0; i-- {
					if v, ok := x.localAnywhere(s, x.frames[i], n); ok {
						return v, true
					}
				}
				if v, ok := x.localAnywhere(s, fr, n); ok {
					return v, true
				}
				return penv(n, t)
			}
			pc := x.pre.clone()
			np := len(pc.pc)
			l1 := x.clauseL1(pc, x.con, cl, penv)
			for id, v := range pc.cells {
				if _, ok := s.cells[id]; !ok {
					s.cells[id] = v
				}
			}
			for _, f := range pc.pc[np:] {
				if f.def {
					s.define(f.t)
				}
			}
			return x.applyClosure(s, l1, cl.P3, lenv).t.s
		}
		rsite := "range"
		if args[1].fn != nil {
			rsite = "range " + args[1].fn.Name()
		}
		for _, cl := range rinv {
			x.oblige(st, "inv-entry", cl.Tag(), rsite, evalRI(st, cl), "")
		}
		skip := st.clone()
		skip.sig = append(skip.sig, "range:0")
		x.havocClosureEffects(st, fr, args[1])
		x.interfere(st)
		for _, cl := range rinv {
			st.assume(evalRI(st, cl))
		}
		n := x.freshTerm("ranged", sRef)
		st.define(not(eq(n, null)))
		if x.mode != "itf" {
			ks, _, _ := x.tblSorts(callee)
			st.define(eq(x.tblGet(st, m, x.entryKey(st, n, ks, valT), valT), n))
		}
		st.sig = append(st.sig, "range:1")
		x.ghostWrite(st, "ghost_ranged", nil, n)
		outs := x.callValue(st, fr, args[1], []val{scalar(n)}, nil, types.Typ[types.Bool])
		var res []outcome
		res = append(res, outcome{st: skip})
		for _, o := range outs {
			if o.panic {
				res = append(res, o)
				continue
			}
			for _, cl := range rinv {
				x.oblige(o.st, "inv-preserved", cl.Tag(), rsite, evalRI(o.st, cl), "")
			}
			x.havocClosureEffects(o.st, fr, args[1])
			x.interfere(o.st)
			for _, cl := range rinv {
				o.st.assume(evalRI(o.st, cl))
			}
			res = append(res, outcome{st: o.st})
		}
		return res
	}
	x.fail("table operation %s not modelled", op)
	return nil
}

func (x *ctx) lpRecord(st *state, m term, what string) {}

// havocClosureEffects havocs everything the closure may write (used for iterator-style repeated calls).
func (x *ctx) havocClosureEffects(st *state, fr *frame, fv val) {
	if fv.fn == nil {
		return
	}
	ms := &modSet{st: st, keys: map[string]bool{}, cells: map[int]bool{}}
	nfr := &frame{fn: fv.fn, regs: map[ssa.Value]val{}}
	for i, f := range fv.fn.FreeVars {
		if i < len(fv.bind) {
			nfr.regs[f] = fv.bind[i]
		}
	}
	for _, blk := range fv.fn.Blocks {
		for _, in := range blk.Instrs {
			x.instrMods(nfr, in, ms, 1)
		}
	}
	if ms.all {
		x.havocAll(st, "*")
	}
	for k := range ms.keys {
		x.havocKey(st, k)
	}
	for id := range ms.cells {
		if t, ok := x.cellRootType[id]; ok {
			st.cells[id] = x.freshVal("itercell", t)
		}
	}
}

// ---------------------------------------------------------------- Go maps

func (x *ctx) mapSorts(t types.Type) (ks, vs srtT, vt types.Type) {
	m := t.Underlying().(*types.Map)
	ks, ok := x.leafSort(m.Key())
	if !ok {
		x.fail("map with aggregate key")
	}
	vs, ok = x.leafSort(m.Elem())
	if !ok {
		x.fail("map with aggregate value %s", m.Elem())
	}
	return ks, vs, m.Elem()
}

func (x *ctx) mapP(ks srtT) string { return "ghost_mapP_" + symName(ks.name) }
func (x *ctx) mapV(ks, vs srtT) string {
	return "ghost_mapV_" + symName(ks.name) + "_" + symName(vs.name)
}
func (x *ctx) mapLen(st *state, m term) term {
	n := x.ghostGet(st, "ghost_mapN", []srtT{sRef}, sInt, []term{m})
	st.define(x.binop(token.GEQ, n, mkbv(0, 64), types.Typ[types.Int]).s)
	st.define(implies(eq(m, null), eq(n, mkbv(0, 64)))) // a nil map is empty
	return n
}

func (x *ctx) makeMap(st *state, in *ssa.MakeMap) val {
	ks, _, _ := x.mapSorts(in.Type())
	r := x.freshTerm("map", sRef)
	st.define(not(eq(r, null)))
	x.assumeFreshRef(st, r)
	// empty: presence array constant false
	key := x.ghostKey(x.mapP(ks))
	hi, ok := x.hinfo[key]
	if !ok {
		hi = heapInfo{ksorts: []srtT{sRef, ks}, elem: sBool}
		x.hinfo[key] = hi
	}
	cur := x.ghostArr(st, x.mapP(ks), hi)
	n := x.freshName("G_mapP")
	x.declare(n, ghostSort(hi))
	st.define(fmt.Sprintf("(= %s (store %s %s ((as const (Array %s Bool)) false)))", n, cur, r.s, ks.name))
	st.heap[key] = n
	x.ghostWrite(st, "ghost_mapN", []term{r}, mkbv(0, 64))
	x.typeTag(st, r, in.Type())
	return scalar(r)
}

func (x *ctx) mapPresent(st *state, m, k term) term {
	p := x.ghostGet(st, x.mapP(k.srt), []srtT{sRef, k.srt}, sBool, []term{m, k})
	st.define(implies(eq(m, null), not(p.s)))
	n := x.mapLen(st, m)
	st.define(implies(p.s, x.binop(token.GTR, n, mkbv(0, 64), types.Typ[types.Int]).s))
	return p
}

func (x *ctx) mapLookup(st *state, fr *frame, in *ssa.Lookup) val {
	if _, ok := in.X.Type().Underlying().(*types.Map); !ok {
		return x.freshVal("strindex", in.Type())
	}
	ks, vs, vt := x.mapSorts(in.X.Type())
	m := x.get(fr, st, in.X).t
	k := x.asTerm(x.get(fr, st, in.Index), in.X.Type().Underlying().(*types.Map).Key())
	_ = ks
	p := x.mapPresent(st, m, k)
	v := x.ghostGet(st, x.mapV(k.srt, vs), []srtT{sRef, k.srt}, vs, []term{m, k})
	if vs == sRef {
		x.noteAllocated(st, v)
	}
	res := ite(p.s, v, x.zeroVal(vt).t)
	if in.CommaOk {
		return val{agg: true, fields: []val{scalar(res), scalar(p)}}
	}
	return scalar(res)
}

func (x *ctx) mapUpdate(st *state, fr *frame, in *ssa.MapUpdate) {
	_, vs, vt := x.mapSorts(in.Map.Type())
	m := x.get(fr, st, in.Map).t
	k := x.asTerm(x.get(fr, st, in.Key), in.Map.Type().Underlying().(*types.Map).Key())
	v := x.asTerm(x.get(fr, st, in.Value), vt)
	p := x.mapPresent(st, m, k)
	n := x.mapLen(st, m)
	x.ghostWrite(st, "ghost_mapN", []term{m}, ite(p.s, n, x.binop(token.ADD, n, mkbv(1, 64), types.Typ[types.Int])))
	x.ghostWrite(st, x.mapP(k.srt), []term{m, k}, mkbool(true))
	x.ghostWrite(st, x.mapV(k.srt, vs), []term{m, k}, v)
}

func (x *ctx) mapDelete(st *state, m, k term, mt types.Type) {
	p := x.mapPresent(st, m, k)
	n := x.mapLen(st, m)
	x.ghostWrite(st, "ghost_mapN", []term{m}, ite(p.s, x.binop(token.SUB, n, mkbv(1, 64), types.Typ[types.Int]), n))
	x.ghostWrite(st, x.mapP(k.srt), []term{m, k}, mkbool(false))
}

// ---------------------------------------------------------------- channels

func (x *ctx) chanSend(st *state, fr *frame, in *ssa.Send) {
	ch := x.get(fr, st, in.Chan).t
	cnt := x.ghostGet(st, "ghost_chanSent", []srtT{sRef}, bvSort(64), []term{ch})
	if x.spec == 0 && x.con != nil && x.con.Flags["nonblocking-sends"] {
		// no receiver can exist before the function returns the channel: the send must fit the buffer
		cp := x.ghostGet(st, "ghost_chanCap", []srtT{sRef}, bvSort(64), []term{ch})
		x.oblige(st, "send-within-capacity", "", "chan", x.binop(token.LSS, cnt, cp, types.Typ[types.Int]).s, "a send on a channel nobody can receive from yet must not block")
	}
	x.ghostWrite(st, "ghost_chanSent", []term{ch}, x.binop(token.ADD, cnt, mkbv(1, 64), types.Typ[types.Int]))
}

// sourceName recovers the source-level name of a function-typed value (parameter, captured variable).
func sourceName(v ssa.Value) string {
	switch t := v.(type) {
	case *ssa.UnOp:
		return sourceName(t.X)
	case *ssa.FreeVar:
		return t.Name()
	case *ssa.Alloc:
		if t.Comment != "" {
			return t.Comment
		}
	case *ssa.Parameter:
		return t.Name()
	case *ssa.Phi:
		if t.Comment != "" {
			return t.Comment
		}
	}
	return v.Name()
}

// mapNext models one step of a range over a Go map: either an arbitrary present key that has not been visited
// yet, or the end of the iteration, at which point every present key has been visited (instantiated at the
// skolem constants and parameters of the key sort: pointwise rule).
func (x *ctx) mapNext(st *state, fr *frame, in *ssa.Next) val {
	rg, ok := in.Iter.(*ssa.Range)
	if !ok || in.IsString {
		x.fail("range over string outside the supported subset in %s", fr.fn)
	}
	mt, isMap := rg.X.Type().Underlying().(*types.Map)
	if !isMap {
		x.fail("range over non-map in %s", fr.fn)
	}
	m := x.get(fr, st, in.Iter).t
	ks, vs, vt := x.mapSorts(rg.X.Type())
	_ = mt
	okT := x.freshTerm("next_ok", sBool)
	k := x.freshTerm("next_key", ks)
	visited := func(kk term) term {
		return x.ghostGet(st, "ghost_visited", []srtT{ks}, sBool, []term{kk})
	}
	p := x.mapPresent(st, m, k)
	st.define(implies(okT.s, and(p.s, not(visited(k).s))))
	// end of iteration: all present keys visited (instantiated pointwise)
	inst := map[string]bool{}
	instAt := func(t term) {
		if t.s == "" || t.srt.name != ks.name || inst[t.s] {
			return
		}
		inst[t.s] = true
		pp := x.mapPresent(st, m, t)
		st.define(implies(not(okT.s), implies(pp.s, visited(t).s)))
	}
	for _, v := range x.skolem {
		instAt(v.t)
	}
	for _, v := range x.params {
		instAt(v.t)
	}
	v := x.ghostGet(st, x.mapV(ks, vs), []srtT{sRef, ks}, vs, []term{m, k})
	if vs == sRef {
		x.noteAllocated(st, v)
	}
	x.instantiateUniv(st, k)
	// mark visited (only meaningful when ok)
	cur := x.ghostArr(st, "ghost_visited", x.hinfo["G:visited"])
	n := x.freshName("G_visited")
	x.declare(n, fmt.Sprintf("(Array %s Bool)", ks.name))
	st.define(fmt.Sprintf("(= %s (ite %s (store %s %s true) %s))", n, okT.s, cur, k.s, cur))
	st.heap["G:visited"] = n
	_ = vt
	return val{agg: true, fields: []val{scalar(okT), scalar(k), scalar(v)}}
}

// gobMerge: field-wise, the received value unless it is the zero value (then the target keeps what it held).
func (x *ctx) gobMerge(w, old, zero val) val {
	if w.agg && old.agg && zero.agg && len(w.fields) == len(old.fields) && len(w.fields) == len(zero.fields) {
		out := val{agg: true}
		for i := range w.fields {
			out.fields = append(out.fields, x.gobMerge(w.fields[i], old.fields[i], zero.fields[i]))
		}
		return out
	}
	if w.t.s == "" || old.t.s == "" || zero.t.s == "" || w.t.srt.name != old.t.srt.name || w.t.srt.name != zero.t.srt.name {
		return w
	}
	return scalar(ite(eq(w.t, zero.t), old.t, w.t))
}
