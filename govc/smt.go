package main

// SMT terms (strings), sorts, constant folding, script emission and solver racing.

import (
	"bytes"
	"context"
	"fmt"
	"math/big"
	"os"
	"os/exec"
	"regexp"
	"strconv"
	"strings"
	"sync"
	"time"
)

type srtT struct {
	name string // SMT srtT
	w    int    // >0: bit-vector width
}

var (
	sBool = srtT{"Bool", 0}
	sRef  = srtT{"(_ BitVec 64)", 64}
	sInt  = srtT{"(_ BitVec 64)", 64}
)

func bvSort(w int) srtT { return srtT{fmt.Sprintf("(_ BitVec %d)", w), w} }

func (s srtT) isBool() bool { return s.name == "Bool" }
func (s srtT) isBV() bool   { return s.w > 0 }

type term struct {
	s   string
	srt srtT
}

func bvlit(v uint64, w int) string {
	if w < 64 {
		v &= (uint64(1) << uint(w)) - 1
	}
	return fmt.Sprintf("(_ bv%d %d)", v, w)
}

func mkbv(v uint64, w int) term { return term{bvlit(v, w), bvSort(w)} }
func mkbool(b bool) term {
	if b {
		return term{"true", sBool}
	}
	return term{"false", sBool}
}

var null = term{bvlit(0, 64), sRef}

var reLit = regexp.MustCompile(`^\(_ bv(\d+) (\d+)\)$`)

func litVal(s string) (uint64, int, bool) {
	m := reLit.FindStringSubmatch(s)
	if m == nil {
		return 0, 0, false
	}
	v, err := strconv.ParseUint(m[1], 10, 64)
	if err != nil {
		return 0, 0, false
	}
	w, _ := strconv.Atoi(m[2])
	return v, w, true
}

func maskW(w int) uint64 {
	if w >= 64 {
		return ^uint64(0)
	}
	return (uint64(1) << uint(w)) - 1
}

func signExt(v uint64, w int) int64 {
	if w >= 64 {
		return int64(v)
	}
	if v&(uint64(1)<<uint(w-1)) != 0 {
		return int64(v | ^maskW(w))
	}
	return int64(v)
}

func and(ts ...string) string {
	var out []string
	for _, t := range ts {
		if t == "true" || t == "" {
			continue
		}
		if t == "false" {
			return "false"
		}
		out = append(out, t)
	}
	switch len(out) {
	case 0:
		return "true"
	case 1:
		return out[0]
	}
	return "(and " + strings.Join(out, " ") + ")"
}

func or(ts ...string) string {
	var out []string
	for _, t := range ts {
		if t == "false" || t == "" {
			continue
		}
		if t == "true" {
			return "true"
		}
		out = append(out, t)
	}
	switch len(out) {
	case 0:
		return "false"
	case 1:
		return out[0]
	}
	return "(or " + strings.Join(out, " ") + ")"
}

func not(t string) string {
	switch {
	case t == "true":
		return "false"
	case t == "false":
		return "true"
	case strings.HasPrefix(t, "(not ") && balanced(t[5:len(t)-1]):
		return t[5 : len(t)-1]
	}
	return "(not " + t + ")"
}

func balanced(s string) bool {
	d := 0
	for i := 0; i < len(s); i++ {
		if s[i] == '(' {
			d++
		} else if s[i] == ')' {
			d--
			if d < 0 {
				return false
			}
		}
	}
	return d == 0
}

func implies(a, b string) string {
	if a == "true" {
		return b
	}
	if a == "false" || b == "true" {
		return "true"
	}
	return "(=> " + a + " " + b + ")"
}

func ite(c string, a, b term) term {
	if c == "true" {
		return a
	}
	if c == "false" {
		return b
	}
	if a.s == b.s {
		return a
	}
	if a.srt.isBool() {
		return term{fmt.Sprintf("(ite %s %s %s)", c, a.s, b.s), sBool}
	}
	return term{fmt.Sprintf("(ite %s %s %s)", c, a.s, b.s), a.srt}
}

func eq(a, b term) string {
	if a.s == b.s {
		return "true"
	}
	if va, _, ok := litVal(a.s); ok {
		if vb, _, ok2 := litVal(b.s); ok2 {
			return fmt.Sprint(va == vb)
		}
	}
	if a.srt.isBool() {
		if b.s == "true" {
			return a.s
		}
		if b.s == "false" {
			return not(a.s)
		}
		if a.s == "true" {
			return b.s
		}
		if a.s == "false" {
			return not(b.s)
		}
	}
	// canonical argument order (literals last, otherwise lexicographic) so that the same equation always has the
	// same text: the syntactic branch pruning compares strings
	_, _, la := litVal(a.s)
	_, _, lb := litVal(b.s)
	if (la && !lb) || (la == lb && a.s > b.s) {
		a, b = b, a
	}
	return "(= " + a.s + " " + b.s + ")"
}

// foldBin folds a binary bit-vector operation over literals.
func foldBin(op string, a, b term, unsigned bool) (term, bool) {
	va, w, ok := litVal(a.s)
	if !ok {
		return term{}, false
	}
	vb, wb, ok := litVal(b.s)
	if !ok || wb != w {
		return term{}, false
	}
	m := maskW(w)
	sa, sb := signExt(va, w), signExt(vb, w)
	bv := func(v uint64) (term, bool) { return mkbv(v&m, w), true }
	bo := func(v bool) (term, bool) { return mkbool(v), true }
	switch op {
	case "bvadd":
		return bv(va + vb)
	case "bvsub":
		return bv(va - vb)
	case "bvmul":
		return bv(va * vb)
	case "bvand":
		return bv(va & vb)
	case "bvor":
		return bv(va | vb)
	case "bvxor":
		return bv(va ^ vb)
	case "bvshl":
		if vb >= uint64(w) {
			return bv(0)
		}
		return bv(va << vb)
	case "bvlshr":
		if vb >= uint64(w) {
			return bv(0)
		}
		return bv(va >> vb)
	case "bvudiv":
		if vb == 0 {
			return term{}, false
		}
		return bv(va / vb)
	case "bvurem":
		if vb == 0 {
			return term{}, false
		}
		return bv(va % vb)
	case "=":
		return bo(va == vb)
	case "distinct":
		return bo(va != vb)
	case "bvult":
		return bo(va < vb)
	case "bvule":
		return bo(va <= vb)
	case "bvugt":
		return bo(va > vb)
	case "bvuge":
		return bo(va >= vb)
	case "bvslt":
		return bo(sa < sb)
	case "bvsle":
		return bo(sa <= sb)
	case "bvsgt":
		return bo(sa > sb)
	case "bvsge":
		return bo(sa >= sb)
	}
	return term{}, false
}

// ---------------------------------------------------------------- solving

type solveResult struct {
	Status string // unsat | sat | unknown | timeout | error
	Solver string
	Ms     int64
	Model  map[string]string
	Raw    string
}

type solverSpec struct {
	name string
	args func(timeoutS int) []string
	prep func(script string) string
}

var solvers = []solverSpec{
	{"z3-new", func(t int) []string { return []string{"z3-new", "-in", fmt.Sprintf("-T:%d", t)} }, nil},
	{"z3", func(t int) []string { return []string{"z3", "-in", fmt.Sprintf("-T:%d", t)} }, nil},
	{"cvc5", func(t int) []string {
		return []string{"cvc5", "--lang=smt2", "--produce-models", fmt.Sprintf("--tlimit=%d", t*1000)}
	}, nil},
}

var solverSem = make(chan struct{}, 14)

func runSolver(ctx context.Context, sp solverSpec, script string, timeoutS int) solveResult {
	solverSem <- struct{}{}
	defer func() { <-solverSem }()
	t0 := time.Now()
	a := sp.args(timeoutS)
	cctx, cancel := context.WithTimeout(ctx, time.Duration(timeoutS+2)*time.Second)
	defer cancel()
	cmd := exec.CommandContext(cctx, a[0], a[1:]...)
	cmd.Stdin = strings.NewReader(script)
	var out bytes.Buffer
	cmd.Stdout = &out
	cmd.Stderr = &out
	_ = cmd.Run()
	res := solveResult{Solver: sp.name, Ms: time.Since(t0).Milliseconds(), Raw: out.String()}
	first := strings.TrimSpace(strings.SplitN(out.String(), "\n", 2)[0])
	switch first {
	case "unsat", "sat", "unknown":
		res.Status = first
	case "timeout":
		res.Status = "timeout"
	default:
		if ctx.Err() != nil || cctx.Err() != nil {
			res.Status = "timeout"
		} else {
			res.Status = "error"
		}
	}
	return res
}

// solve races the solvers: z3-new first; if it has no definite answer after a grace period the others join.
func solve(script string, modelVars []string, budgetS int, which []string) solveResult {
	full := "(set-option :produce-models true)\n(set-logic ALL)\n" + script + "(check-sat)\n"
	if len(modelVars) > 0 {
		full += "(get-value (" + strings.Join(modelVars, " ") + "))\n"
	}
	ctx, cancel := context.WithCancel(context.Background())
	defer cancel()
	resCh := make(chan solveResult, len(solvers))
	var wg sync.WaitGroup
	launch := func(sp solverSpec) {
		wg.Add(1)
		go func() {
			defer wg.Done()
			resCh <- runSolver(ctx, sp, full, budgetS)
		}()
	}
	use := func(n string) bool {
		if len(which) == 0 {
			return true
		}
		for _, w := range which {
			if w == n {
				return true
			}
		}
		return false
	}
	var pending int
	var later []solverSpec
	for i, sp := range solvers {
		if !use(sp.name) {
			continue
		}
		if i == 0 || len(which) > 0 {
			launch(sp)
			pending++
		} else {
			later = append(later, sp)
		}
	}
	grace := time.After(1500 * time.Millisecond)
	var last solveResult
	last.Status = "unknown"
	for pending > 0 || len(later) > 0 {
		select {
		case r := <-resCh:
			pending--
			if r.Status == "unsat" || r.Status == "sat" {
				if r.Status == "sat" {
					r.Model = parseModel(r.Raw)
				}
				cancel()
				return r
			}
			if last.Raw == "" || r.Status != "error" {
				last = r
			}
			if pending == 0 && len(later) > 0 {
				for _, sp := range later {
					launch(sp)
					pending++
				}
				later = nil
			}
		case <-grace:
			for _, sp := range later {
				launch(sp)
				pending++
			}
			later = nil
		}
	}
	return last
}

var reModelPair = regexp.MustCompile(`\(\s*([^\s()]+)\s+(#x[0-9a-fA-F]+|#b[01]+|true|false|\(_ bv\d+ \d+\))\s*\)`)

func parseModel(raw string) map[string]string {
	m := map[string]string{}
	idx := strings.Index(raw, "\n")
	if idx < 0 {
		return m
	}
	for _, p := range reModelPair.FindAllStringSubmatch(raw[idx:], -1) {
		m[p[1]] = p[2]
	}
	return m
}

// modelUint parses a model value.
func modelUint(v string) (uint64, bool) {
	switch {
	case strings.HasPrefix(v, "#x"):
		b, ok := new(big.Int).SetString(v[2:], 16)
		if !ok {
			return 0, false
		}
		return b.Uint64(), true
	case strings.HasPrefix(v, "#b"):
		b, ok := new(big.Int).SetString(v[2:], 2)
		if !ok {
			return 0, false
		}
		return b.Uint64(), true
	case v == "true":
		return 1, true
	case v == "false":
		return 0, true
	}
	if u, _, ok := litVal(v); ok {
		return u, true
	}
	return 0, false
}

func dumpScript(dir, name, script string) string {
	_ = os.MkdirAll(dir, 0o755)
	p := dir + "/" + sanitize(name) + ".smt2"
	_ = os.WriteFile(p, []byte(script), 0o644)
	return p
}
