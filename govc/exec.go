package main

// Symbolic executor over go/ssa: path enumeration, per-field heap arrays, bit-vector semantics.

import (
	"encoding/hex"
	"fmt"
	"go/constant"
	"go/token"
	"go/types"
	"os"
	"runtime"
	"runtime/debug"
	"sort"
	"strings"

	"golang.org/x/tools/go/ssa"
)

type loc struct {
	cell int   // >0: local cell
	path []int // field path inside an aggregate cell
	base term  // heap object (or slice) reference
	key  string
	idx  *term // element index for slice elements
	typ  types.Type
}

type cbRef struct {
	con  *Contract
	spec *CbSpec
	fn   *ssa.Function // enclosing function under contract
}

type val struct {
	t      term
	ptr    *loc
	fields []val
	agg    bool
	fn     *ssa.Function
	bind   []val
	cb     *cbRef
	origin string
	recv   *val // bound receiver for interface method values
	iter   *iterRef
}

// iterRef marks an iterator returned by a function under contract: its elements satisfy the result-callback requires.
type iterRef struct {
	con  *Contract
	spec *CbSpec
	args []val
}

func scalar(t term) val { return val{t: t} }

type deferred struct {
	call  *ssa.CallCommon
	fnv   val
	args  []val
	instr ssa.Instruction
}

type frame struct {
	fn     *ssa.Function
	regs   map[ssa.Value]val
	defers []deferred
	depth  int
	visits map[*ssa.BasicBlock]int
	con    *Contract // contract of this frame's function if it is the verified one
	top    bool
	// closures of `entry(...)` invariants, applied in the state in which each loop was entered
	loopEntry map[string]val
}

func (f *frame) clone() *frame {
	n := &frame{fn: f.fn, regs: make(map[ssa.Value]val, len(f.regs)+8), depth: f.depth, con: f.con, top: f.top}
	for k, v := range f.regs {
		n.regs[k] = v
	}
	n.defers = append([]deferred(nil), f.defers...)
	if f.loopEntry != nil {
		n.loopEntry = make(map[string]val, len(f.loopEntry))
		for k, v := range f.loopEntry {
			n.loopEntry[k] = v
		}
	}
	if f.visits != nil {
		n.visits = map[*ssa.BasicBlock]int{}
		for k, v := range f.visits {
			n.visits[k] = v
		}
	}
	return n
}

type fact struct {
	t   string
	def bool // definitional fact about fresh symbols (not a branch decision)
}

type state struct {
	pc    []fact
	heap  map[string]string
	cells map[int]val
	sig   []string
	snaps map[string]*state
	// panic bookkeeping
	recoverable bool
	recovered   bool
	nowTerm     string
	ghostCnt    map[string]int
	// universally valid facts (clauses over skolem variables, proved for an arbitrary value): instantiated lazily
	univ     []*univFact
	univDone map[string]bool
	// calls made through contracts by the verified function itself (for `delegates`)
	dcalls []callRec
}

type callRec struct {
	iface  bool
	target string
	args   []val
	ret    val
}

// univFact is a clause over skolem variables that has been established for arbitrary values of them (a precondition,
// or a loop invariant assumed at a loop head); eval re-evaluates it, in the state it was assumed in, under the current
// skolem override and returns the instance after copying its definitional facts into cur.
type univFact struct {
	id   string
	vars []string
	eval func(cur *state) string
}

func newState() *state {
	return &state{heap: map[string]string{}, cells: map[int]val{}, snaps: map[string]*state{}, ghostCnt: map[string]int{}}
}

func (s *state) clone() *state {
	n := &state{pc: append([]fact(nil), s.pc...), heap: make(map[string]string, len(s.heap)), cells: make(map[int]val, len(s.cells)),
		sig: append([]string(nil), s.sig...), snaps: map[string]*state{}, recoverable: s.recoverable, recovered: s.recovered, nowTerm: s.nowTerm, ghostCnt: map[string]int{}}
	for k, v := range s.heap {
		n.heap[k] = v
	}
	for k, v := range s.cells {
		n.cells[k] = v
	}
	for k, v := range s.snaps {
		n.snaps[k] = v
	}
	for k, v := range s.ghostCnt {
		n.ghostCnt[k] = v
	}
	n.univ = append([]*univFact(nil), s.univ...)
	n.dcalls = append([]callRec(nil), s.dcalls...)
	if len(s.univDone) > 0 {
		n.univDone = make(map[string]bool, len(s.univDone))
		for k := range s.univDone {
			n.univDone[k] = true
		}
	}
	return n
}

func (s *state) assume(t string) {
	if t != "true" && t != "" {
		s.pc = append(s.pc, fact{t, false})
	}
}

// define records a definitional fact (constrains fresh symbols only).
func (s *state) define(t string) {
	if t != "true" && t != "" {
		s.pc = append(s.pc, fact{t, true})
	}
}

func (s *state) pcStrings() []string {
	out := make([]string, len(s.pc))
	for i, f := range s.pc {
		out[i] = f.t
	}
	return out
}

type outcome struct {
	st    *state
	ret   val
	panic bool
}

type obligation struct {
	Name  string
	Kind  string
	Tag   string
	Site  string
	Pc    []string
	Goal  string
	Sig   []string
	Decls int // number of declarations visible when recorded
	Note  string
}

type heapInfo struct {
	indexed bool // (Array Ref (Array BV64 S))
	ksorts  []srtT
	elem    srtT
}

type ctx struct {
	cellRootType  map[int]types.Type
	cellAlloc     map[int]*ssa.Alloc
	curIter       val // value of ghost_iter() while a loop invariant is evaluated
	allocated     []term
	allocFrom     int
	lastStore     map[string][2]term
	cellPtrs      []string
	knownLenT     map[string]term // fresh slice reference -> the length it was created with
	forks         int
	lastStoreOf   map[string]string // fresh value symbol -> array version it was stored into (setter recognition)
	siteHit       map[string]bool
	cbInvHit      map[string]bool
	siteFr        *frame // frame and block of the call being executed in the verified function (or a closure of it)
	siteBlk       *ssa.BasicBlock
	siteCtx       string
	knownLen      map[string]int
	ghostConst    map[string]term
	inInv         bool
	inMerge       bool
	critical      int
	typeIDs       map[string]int
	noAllocFacts  bool
	lastInst      *ssa.Function
	frames        []*frame
	lastAllocType map[string]types.Type
	memo          map[string][]memoEntry
	readLog       []map[string]string
	w             *world
	con           *Contract
	fn            *ssa.Function
	mode          string // seq | itf
	decls         []string
	seen          map[string]bool
	fresh         int
	hinfo         map[string]heapInfo
	obls          []*obligation
	spec          int
	paths         int
	skolem        map[string]val
	skolemOv      map[string]val // instantiation of universally valid facts: overrides a skolem variable
	reqFacts      []*univFact
	params        map[string]val
	pre           *state
	errs          []string
	siteOrd       map[string]int
	maxPaths      int
	alias         map[string]string // heap key aliasing (interface conformance)
	nodeT         *types.Named      // concrete node type under conformance check
	assumed       map[string]bool   // trusted items actually used
	depthCap      int
	closureRef    map[string]string
	pruneQueries  int
	siteArgs      []val          // operands of the call at which site assertions are being evaluated
	fnVals        map[string]val // reference term of a function value stored in memory -> the function value
	inheriting    int            // > 0 while a chain of delegating wrappers is executed for a function that delegates to its head
}

func (x *ctx) fail(format string, a ...any) {
	panic(engineError(fmt.Sprintf(format, a...)))
}

type engineError string

func (x *ctx) declare(name string, srt string) {
	if !x.seen[name] {
		x.seen[name] = true
		x.decls = append(x.decls, fmt.Sprintf("(declare-fun %s () %s)", name, srt))
	}
}

func (x *ctx) declareFun(name string, args []srtT, res srtT) {
	if !x.seen[name] {
		x.seen[name] = true
		var as []string
		for _, a := range args {
			as = append(as, a.name)
		}
		x.decls = append(x.decls, fmt.Sprintf("(declare-fun %s (%s) %s)", name, strings.Join(as, " "), res.name))
	}
}

func (x *ctx) declareSort(name string) {
	if !x.seen["srtT:"+name] {
		x.seen["srtT:"+name] = true
		x.decls = append([]string{fmt.Sprintf("(declare-sort %s 0)", name)}, x.decls...)
	}
}

func symName(s string) string {
	r := strings.NewReplacer(" ", "_", "(", "", ")", "", "*", "p", "[", "<", "]", ">", ",", "_", "/", ".", "{", "", "}", "", ";", "_", "\"", "", "|", "", "#", "", ":", "$")
	return r.Replace(s)
}

func (x *ctx) freshName(prefix string) string {
	x.fresh++
	return fmt.Sprintf("%s!%d", symName(prefix), x.fresh)
}

func (x *ctx) freshTerm(prefix string, s srtT) term {
	n := x.freshName(prefix)
	x.declare(n, s.name)
	return term{n, s}
}

// ---------------------------------------------------------------- types

// opaqueKind classifies library struct types that are modelled as one scalar.
func opaqueSort(t types.Type) (srtT, bool) {
	named, ok := t.(*types.Named)
	if !ok {
		return srtT{}, false
	}
	obj := named.Obj()
	if obj.Pkg() == nil {
		return srtT{}, false
	}
	switch obj.Pkg().Path() + "." + obj.Name() {
	case "sync/atomic.Int64", "sync/atomic.Uint64", "sync/atomic.Uintptr":
		return bvSort(64), true
	case "sync/atomic.Int32", "sync/atomic.Uint32":
		return bvSort(32), true
	case "sync/atomic.Bool":
		return sBool, true
	case "sync/atomic.Pointer", "sync/atomic.Value":
		return sRef, true
	case "sync.Mutex", "sync.RWMutex", "sync.Once":
		return sBool, true
	case "sync.WaitGroup":
		return bvSort(64), true
	case "strings.Builder":
		return srtT{"Str", 0}, true // the content written so far (concrete strings are tracked: see concreteStr)
	case "sync.Pool", "time.Time", "bytes.Buffer", "context.Context":
		return sRef, true
	}
	return srtT{}, false
}

func (x *ctx) leafSort(t types.Type) (srtT, bool) {
	if tp, ok := t.(*types.TypeParam); ok {
		n := "T_" + tp.Obj().Name()
		x.declareSort(n)
		return srtT{n, 0}, true
	}
	if s, ok := opaqueSort(t); ok {
		if s.name == "Str" {
			x.declareSort("Str")
		}
		return s, true
	}
	switch u := t.Underlying().(type) {
	case *types.Basic:
		switch {
		case u.Info()&types.IsBoolean != 0:
			return sBool, true
		case u.Info()&types.IsInteger != 0:
			w := map[types.BasicKind]int{types.Int8: 8, types.Uint8: 8, types.Int16: 16, types.Uint16: 16, types.Int32: 32, types.Uint32: 32,
				types.Int64: 64, types.Uint64: 64, types.Int: 64, types.Uint: 64, types.Uintptr: 64, types.UntypedInt: 64, types.UntypedRune: 32}[u.Kind()]
			if w == 0 {
				w = 64
			}
			return bvSort(w), true
		case u.Info()&types.IsString != 0:
			x.declareSort("Str")
			return srtT{"Str", 0}, true
		case u.Info()&types.IsFloat != 0:
			x.declareSort("Float")
			return srtT{"Float", 0}, true
		case u.Kind() == types.UnsafePointer:
			return sRef, true
		case u.Kind() == types.UntypedNil:
			return sRef, true
		}
		return sRef, true
	case *types.Pointer, *types.Interface, *types.Signature, *types.Slice, *types.Map, *types.Chan, *types.Array:
		return sRef, true
	case *types.Struct:
		if u.NumFields() == 0 {
			return sRef, true
		}
		return srtT{}, false
	case *types.Tuple:
		return srtT{}, false
	}
	return sRef, true
}

func isUnsigned(t types.Type) bool {
	b, ok := t.Underlying().(*types.Basic)
	return ok && b.Info()&types.IsUnsigned != 0
}

func structName(t types.Type) string {
	switch u := t.(type) {
	case *types.Named:
		return u.Origin().Obj().Name()
	case *types.Pointer:
		return structName(u.Elem())
	}
	return "anon"
}

func deref(t types.Type) types.Type {
	if p, ok := t.Underlying().(*types.Pointer); ok {
		return p.Elem()
	}
	return t
}

func (x *ctx) zeroVal(t types.Type) val {
	if s, ok := x.leafSort(t); ok {
		switch {
		case s.isBool():
			return scalar(mkbool(false))
		case s.isBV():
			return scalar(mkbv(0, s.w))
		default:
			n := "zero_" + s.name
			x.declare(n, s.name)
			return scalar(term{n, s})
		}
	}
	switch u := t.Underlying().(type) {
	case *types.Struct:
		v := val{agg: true}
		for i := 0; i < u.NumFields(); i++ {
			v.fields = append(v.fields, x.zeroVal(u.Field(i).Type()))
		}
		return v
	case *types.Tuple:
		v := val{agg: true}
		for i := 0; i < u.Len(); i++ {
			v.fields = append(v.fields, x.zeroVal(u.At(i).Type()))
		}
		return v
	}
	return scalar(null)
}

func (x *ctx) freshVal(prefix string, t types.Type) val {
	if s, ok := x.leafSort(t); ok {
		return scalar(x.freshTerm(prefix, s))
	}
	switch u := t.Underlying().(type) {
	case *types.Struct:
		v := val{agg: true}
		for i := 0; i < u.NumFields(); i++ {
			v.fields = append(v.fields, x.freshVal(prefix+"."+u.Field(i).Name(), u.Field(i).Type()))
		}
		return v
	case *types.Tuple:
		v := val{agg: true}
		for i := 0; i < u.Len(); i++ {
			v.fields = append(v.fields, x.freshVal(fmt.Sprintf("%s.%d", prefix, i), u.At(i).Type()))
		}
		return v
	}
	return scalar(x.freshTerm(prefix, sRef))
}

// ---------------------------------------------------------------- heap

func (x *ctx) akey(key string) string {
	if a, ok := x.alias[key]; ok {
		return a
	}
	return key
}

// arr returns the current array term of a heap key, declaring the initial array on first use.
func (x *ctx) arr(st *state, key string, indexed bool, elem srtT) string {
	key = x.akey(key)
	if a, ok := st.heap[key]; ok {
		x.noteRead(key, a)
		return a
	}
	hi, ok := x.hinfo[key]
	if !ok {
		hi = heapInfo{indexed: indexed, elem: elem}
		x.hinfo[key] = hi
	}
	name := "H_" + symName(key)
	srt := fmt.Sprintf("(Array (_ BitVec 64) %s)", hi.elem.name)
	if hi.indexed {
		srt = fmt.Sprintf("(Array (_ BitVec 64) (Array (_ BitVec 64) %s))", hi.elem.name)
	}
	x.declare(name, srt)
	x.noteRead(key, name)
	return name
}

func (x *ctx) setArr(st *state, key string, newTerm string) {
	key = x.akey(key)
	hi := x.hinfo[key]
	srt := fmt.Sprintf("(Array (_ BitVec 64) %s)", hi.elem.name)
	if hi.indexed {
		srt = fmt.Sprintf("(Array (_ BitVec 64) (Array (_ BitVec 64) %s))", hi.elem.name)
	}
	if len(hi.ksorts) > 0 {
		srt = ghostSort(hi)
	}
	n := x.freshName("H_" + key)
	x.declare(n, srt)
	st.define(fmt.Sprintf("(= %s %s)", n, newTerm))
	st.heap[key] = n
}

func (x *ctx) havocKey(st *state, key string) {
	key = x.akey(key)
	if os.Getenv("GOVC_TRACE_HAVOC") == key {
		debugf("havoc %s: %s", key, string(debug.Stack()))
	}
	hi, ok := x.hinfo[key]
	if !ok {
		return // never read or written so far: the initial array is already arbitrary
	}
	srt := fmt.Sprintf("(Array (_ BitVec 64) %s)", hi.elem.name)
	if hi.indexed {
		srt = fmt.Sprintf("(Array (_ BitVec 64) (Array (_ BitVec 64) %s))", hi.elem.name)
	}
	if len(hi.ksorts) > 0 || strings.HasPrefix(key, "G:") {
		srt = ghostSort(hi)
	}
	n := x.freshName("H_" + key + "_hv")
	x.declare(n, srt)
	st.heap[key] = n
}

func ghostSort(hi heapInfo) string {
	s := hi.elem.name
	for i := len(hi.ksorts) - 1; i >= 0; i-- {
		s = fmt.Sprintf("(Array %s %s)", hi.ksorts[i].name, s)
	}
	return s
}

// leaves enumerates the scalar leaves of a type with their key suffixes.
func (x *ctx) readLeafHeap(st *state, l *loc, key string, s srtT) term {
	var r term
	if l.idx != nil {
		a := x.arr(st, key, true, s)
		r = term{fmt.Sprintf("(select (select %s %s) %s)", a, l.base.s, l.idx.s), s}
	} else {
		a := x.arr(st, key, false, s)
		if ls, ok := x.lastStore[a]; ok && ls[0].s == l.base.s && ls[1].srt.name == s.name {
			return ls[1]
		}
		r = term{fmt.Sprintf("(select %s %s)", a, l.base.s), s}
	}
	if s == sRef && key != "Len" {
		x.noteAllocated(st, r)
	}
	return r
}

// typeTag: a non-nil reference of static map / pointer-to-struct type T points to an object of that type, so
// references of different static types never alias.
func (x *ctx) typeTag(st *state, r term, t types.Type) {
	if r.s == "" || r.srt != sRef || t == nil || x.noAllocFacts || len(r.s) > 400 {
		return
	}
	var name string
	switch u := t.Underlying().(type) {
	case *types.Map:
		name = "map:" + types.TypeString(t, nil)
	case *types.Pointer:
		if _, ok := u.Elem().Underlying().(*types.Struct); !ok {
			return
		}
		if _, opaque := opaqueSort(u.Elem()); opaque {
			return
		}
		name = "ptr:" + structName(u.Elem())
	default:
		return
	}
	id, ok := x.typeIDs[name]
	if !ok {
		id = len(x.typeIDs) + 1
		x.typeIDs[name] = id
	}
	x.declare("G_rtype", "(Array (_ BitVec 64) (_ BitVec 16))")
	st.define(or(eq(r, null), fmt.Sprintf("(= (select G_rtype %s) %s)", r.s, bvlit(uint64(id), 16))))
}

// typeIDOf: the tag of a pointer-to-struct type (as assigned by typeTag); ok=false for other types.
func (x *ctx) typeIDOf(t types.Type) (int, bool) {
	u, ok := t.Underlying().(*types.Pointer)
	if !ok {
		return 0, false
	}
	if _, ok := u.Elem().Underlying().(*types.Struct); !ok {
		return 0, false
	}
	if _, opaque := opaqueSort(u.Elem()); opaque {
		return 0, false
	}
	name := "ptr:" + structName(u.Elem())
	id, have := x.typeIDs[name]
	if !have {
		id = len(x.typeIDs) + 1
		x.typeIDs[name] = id
	}
	return id, true
}

// noteAllocated: a reference read from memory denotes an object that already exists (or nil).
func (x *ctx) noteAllocated(st *state, r term) {
	if x.noAllocFacts || len(r.s) > 400 {
		return
	}
	a := x.allocArr(st)
	st.define(or(eq(r, null), fmt.Sprintf("(select %s %s)", a, r.s)))
}

func (x *ctx) allocArr(st *state) string {
	if a, ok := st.heap["G:allocd"]; ok {
		return a
	}
	x.hinfo["G:allocd"] = heapInfo{ksorts: []srtT{sRef}, elem: sBool}
	x.declare("G_allocd", "(Array (_ BitVec 64) Bool)")
	return "G_allocd"
}

// markFresh: r is a new object: it was not allocated before and is from now on.
func (x *ctx) markFresh(st *state, r term) {
	a := x.allocArr(st)
	st.define(not(fmt.Sprintf("(select %s %s)", a, r.s)))
	n := x.freshName("G_allocd")
	x.declare(n, "(Array (_ BitVec 64) Bool)")
	st.define(fmt.Sprintf("(= %s (store %s %s true))", n, a, r.s))
	st.heap["G:allocd"] = n
}

func (x *ctx) writeLeafHeap(st *state, l *loc, key string, v term) {
	if l.idx != nil {
		a := x.arr(st, key, true, v.srt)
		x.setArr(st, key, fmt.Sprintf("(store %s %s (store (select %s %s) %s %s))", a, l.base.s, a, l.base.s, l.idx.s, v.s))
		return
	}
	a := x.arr(st, key, false, v.srt)
	x.setArr(st, key, fmt.Sprintf("(store %s %s %s)", a, l.base.s, v.s))
	// store forwarding: a read of the same location from this array version yields the stored term
	if x.lastStore == nil {
		x.lastStore = map[string][2]term{}
	}
	x.lastStore[st.heap[x.akey(key)]] = [2]term{l.base, v}
	x.lastStoreOf[v.s] = st.heap[x.akey(key)]
}

func (x *ctx) readHeap(st *state, l *loc, key string, t types.Type) val {
	if s, ok := x.leafSort(t); ok {
		v := scalar(x.readLeafHeap(st, l, key, s))
		if _, isSig := t.Underlying().(*types.Signature); isSig {
			v.origin = key
		}
		x.typeTag(st, v.t, t)
		return v
	}
	switch u := t.Underlying().(type) {
	case *types.Struct:
		v := val{agg: true}
		for i := 0; i < u.NumFields(); i++ {
			v.fields = append(v.fields, x.readHeap(st, l, key+"."+u.Field(i).Name(), u.Field(i).Type()))
		}
		return v
	}
	x.fail("readHeap: unsupported type %s", t)
	return val{}
}

func (x *ctx) writeHeap(st *state, l *loc, key string, t types.Type, v val) {
	if _, ok := x.leafSort(t); ok {
		x.writeLeafHeap(st, l, key, x.asTerm(v, t))
		return
	}
	switch u := t.Underlying().(type) {
	case *types.Struct:
		for i := 0; i < u.NumFields(); i++ {
			fv := x.zeroVal(u.Field(i).Type())
			if i < len(v.fields) {
				fv = v.fields[i]
			}
			x.writeHeap(st, l, key+"."+u.Field(i).Name(), u.Field(i).Type(), fv)
		}
		return
	}
	x.fail("writeHeap: unsupported type %s", t)
}

// asTerm converts a value to a scalar term of the srtT of t (function values and pointers to cells become opaque refs).
func (x *ctx) asTerm(v val, t types.Type) term {
	if v.t.s != "" {
		return v.t
	}
	if v.fn != nil || v.cb != nil {
		n := "fn_" + symName(fmt.Sprint(v.fn))
		if v.fn != nil && v.fn.Origin() != nil {
			n = "fn_" + symName(fmt.Sprint(v.fn.Origin())) // an instantiation of a generic function is that function
		}
		if v.cb != nil {
			n = "cb_" + v.cb.spec.Name
		}
		if v.fn != nil && len(v.bind) > 0 {
			// closures with captured variables: one reference per closure value (identified by its binding list)
			id := fmt.Sprintf("%s@%p", n, &v.bind[0])
			if x.closureRef == nil {
				x.closureRef = map[string]string{}
			}
			if have, ok := x.closureRef[id]; ok {
				n = have
			} else {
				x.fresh++
				n = fmt.Sprintf("%s!c%d", n, x.fresh)
				x.closureRef[id] = n
			}
		}
		x.declare(n, sRef.name)
		if x.fnVals == nil {
			x.fnVals = map[string]val{}
		}
		if _, have := x.fnVals[n]; !have {
			x.decls = append(x.decls, fmt.Sprintf("(assert (not (= %s (_ bv0 64))))", n))
			if v.fn != nil && len(v.bind) == 0 && v.fn.Parent() == nil {
				// two different top-level functions are different function values
				var others []string
				for o, ov := range x.fnVals {
					if ov.fn != nil && len(ov.bind) == 0 && ov.fn.Parent() == nil && ov.cb == nil {
						others = append(others, o)
					}
				}
				sort.Strings(others)
				for _, o := range others {
					x.decls = append(x.decls, fmt.Sprintf("(assert (not (= %s %s)))", n, o))
				}
			}
			x.fnVals[n] = v
		}
		return term{n, sRef}
	}
	if v.ptr != nil {
		if v.ptr.cell > 0 {
			n := fmt.Sprintf("cellptr_%d", v.ptr.cell)
			if !x.seen[n] {
				x.declare(n, sRef.name)
				// the address of a local variable is not nil and differs from every reference the function received and
				// from the addresses of its other locals
				x.decls = append(x.decls, fmt.Sprintf("(assert (not (= %s (_ bv0 64))))", n))
				var names []string
				for pn := range x.params {
					names = append(names, pn)
				}
				sort.Strings(names)
				for _, pn := range names {
					if pv := x.params[pn]; pv.t.s != "" && pv.t.srt == sRef {
						x.decls = append(x.decls, fmt.Sprintf("(assert (not (= %s %s)))", n, pv.t.s))
					}
				}
				for _, o := range x.cellPtrs {
					x.decls = append(x.decls, fmt.Sprintf("(assert (not (= %s %s)))", n, o))
				}
				x.cellPtrs = append(x.cellPtrs, n)
			}
			return term{n, sRef}
		}
		// pointer into a heap object: an opaque address derived from the base
		n := "addr_" + symName(v.ptr.key)
		x.declareFun(n, []srtT{sRef}, sRef)
		return term{fmt.Sprintf("(%s %s)", n, v.ptr.base.s), sRef}
	}
	if v.agg {
		// aggregates stored as one opaque value (e.g. struct inside interface)
		return x.freshTerm("aggregate", sRef)
	}
	s, _ := x.leafSort(t)
	if s.name == "" {
		s = sRef
	}
	return x.zeroVal(t).t
}

// globalSlice models a package-level slice variable whose contents are declared in the contract file
// (//@ global name = v0, v1, ...; compared with the real package values by an executed test on every run).
func (x *ctx) globalSlice(st *state, key string, t types.Type) (val, bool) {
	vals, ok := x.w.globals[strings.TrimPrefix(key, "global.")]
	if !ok {
		return val{}, false
	}
	sl, ok := t.Underlying().(*types.Slice)
	if !ok {
		return val{}, false
	}
	es, ok := x.leafSort(sl.Elem())
	if !ok || !es.isBV() {
		return val{}, false
	}
	name := "gslice_" + symName(key)
	x.declare(name, sRef.name)
	r := term{name, sRef}
	st.define(not(eq(r, null)))
	la := x.arr(st, "Len", false, sInt)
	st.define(fmt.Sprintf("(= (select %s %s) %s)", la, r.s, bvlit(uint64(len(vals)), 64)))
	ea := x.arr(st, x.elemKey(sl.Elem()), true, es)
	for i, v := range vals {
		st.define(fmt.Sprintf("(= (select (select %s %s) %s) %s)", ea, r.s, bvlit(uint64(i), 64), bvlit(v, es.w)))
	}
	x.knownLen[r.s] = len(vals)
	x.assumed["package variable "+strings.TrimPrefix(key, "global.")+" has the declared contents (checked by execution on every run)"] = true
	return scalar(r), true
}

func (x *ctx) load(st *state, p val, t types.Type) val {
	if p.ptr != nil && p.ptr.cell == 0 && strings.HasPrefix(p.ptr.key, "global.") {
		if v, ok := x.globalSlice(st, p.ptr.key, t); ok {
			return v
		}
	}
	if p.ptr == nil {
		// pointer held as a term: a pointer to a scalar/struct object on the heap
		if p.t.s == "" {
			x.fail("load through a non-pointer value")
		}
		l := &loc{base: p.t, key: structName(t), typ: t}
		if _, ok := x.leafSort(t); ok {
			l.key = "deref." + leafKey(x, t)
		}
		return x.readHeap(st, l, l.key, t)
	}
	l := p.ptr
	if l.cell > 0 {
		v, ok := st.cells[l.cell]
		if !ok {
			v = x.zeroVal(cellType(l))
		}
		for _, i := range l.path {
			if !v.agg || i >= len(v.fields) {
				x.fail("cell path out of range")
			}
			v = v.fields[i]
		}
		return v
	}
	return x.readHeap(st, l, l.key, t)
}

func cellType(l *loc) types.Type { return l.typ }

func leafKey(x *ctx, t types.Type) string {
	s, _ := x.leafSort(t)
	return symName(s.name)
}

func (x *ctx) store(st *state, p val, v val, t types.Type) {
	if p.ptr == nil {
		if p.t.s == "" {
			x.fail("store through a non-pointer value")
		}
		l := &loc{base: p.t, key: structName(t), typ: t}
		if _, ok := x.leafSort(t); ok {
			l.key = "deref." + leafKey(x, t)
		}
		x.writeHeap(st, l, l.key, t, v)
		return
	}
	l := p.ptr
	if l.cell > 0 {
		if len(l.path) == 0 {
			st.cells[l.cell] = v
			return
		}
		root, ok := st.cells[l.cell]
		if !ok {
			root = x.zeroVal(x.cellRootType[l.cell])
		}
		st.cells[l.cell] = setPath(root, l.path, v)
		return
	}
	x.writeHeap(st, l, l.key, t, v)
}

func setPath(root val, path []int, v val) val {
	if len(path) == 0 {
		return v
	}
	n := val{agg: true, fields: append([]val(nil), root.fields...)}
	n.fields[path[0]] = setPath(root.fields[path[0]], path[1:], v)
	return n
}

// ---------------------------------------------------------------- slices

func (x *ctx) sliceLen(st *state, ref term) term {
	if n, ok := x.knownLenT[ref.s]; ok {
		return n // the length a slice value was created with never changes
	}
	a := x.arr(st, "Len", false, sInt)
	return term{fmt.Sprintf("(select %s %s)", a, ref.s), sInt}
}

// elemKey names the heap array holding the elements of all slices (and arrays) of one Go element type. Slices of
// different element types cannot overlap (no unsafe conversions in the verified code), so they get separate arrays.
func (x *ctx) elemKey(elem types.Type) string {
	if _, ok := x.leafSort(elem); ok {
		return "E:" + typeKeyName(elem)
	}
	return "E:" + structName(elem)
}

func typeKeyName(t types.Type) string {
	switch u := t.(type) {
	case *types.Basic:
		return u.Name()
	case *types.Named:
		return u.Obj().Name()
	case *types.Alias:
		return typeKeyName(types.Unalias(u))
	case *types.TypeParam:
		return "T_" + u.Obj().Name()
	case *types.Pointer:
		return "ptr_" + typeKeyName(u.Elem())
	case *types.Slice:
		return "sl_" + typeKeyName(u.Elem())
	case *types.Array:
		return "arr_" + typeKeyName(u.Elem())
	case *types.Map:
		return "map"
	case *types.Chan:
		return "chan"
	case *types.Signature:
		return "func"
	case *types.Interface:
		return "iface"
	}
	return "other"
}

// ---------------------------------------------------------------- operands

func (x *ctx) get(fr *frame, st *state, v ssa.Value) val {
	switch c := v.(type) {
	case *ssa.Const:
		return x.constVal(c)
	case *ssa.Function:
		return val{fn: c}
	case *ssa.Global:
		return x.globalPtr(c)
	case *ssa.Builtin:
		return val{origin: "builtin:" + c.Name()}
	}
	if r, ok := fr.regs[v]; ok {
		return r
	}
	x.fail("unbound SSA value %s (%T) in %s", v.Name(), v, fr.fn)
	return val{}
}

func (x *ctx) constVal(c *ssa.Const) val {
	t := c.Type()
	if c.Value == nil {
		return x.zeroVal(t)
	}
	s, ok := x.leafSort(t)
	if !ok {
		return x.zeroVal(t)
	}
	switch c.Value.Kind() {
	case constant.Bool:
		return scalar(mkbool(constant.BoolVal(c.Value)))
	case constant.Int:
		if !s.isBV() {
			return scalar(x.freshTerm("const", s))
		}
		if i, ok := constant.Int64Val(c.Value); ok {
			return scalar(mkbv(uint64(i), s.w))
		}
		u, _ := constant.Uint64Val(c.Value)
		return scalar(mkbv(u, s.w))
	case constant.String:
		return scalar(x.strConst(constant.StringVal(c.Value), s))
	case constant.Float:
		if s.isBV() { // integer-typed constant written as float
			f, _ := constant.Float64Val(c.Value)
			return scalar(mkbv(uint64(int64(f)), s.w))
		}
		n := "flt_" + symName(c.Value.ExactString())
		x.declare(n, s.name)
		return scalar(term{n, s})
	}
	return scalar(x.freshTerm("const", s))
}

// strConst is the term of a concrete string: its name carries the content (hex), so that two concrete strings are
// equal iff their terms are; strings too long for that get a name that concreteStr does not decode.
func (x *ctx) strConst(c string, s srtT) term {
	n := "str_" + fmt.Sprintf("%x", c)
	if len(n) > 40 {
		n = "strl_" + n[4:39]
	}
	x.declareSort("Str")
	x.declare(n, s.name)
	return term{n, s}
}

// concreteStr decodes a term made by strConst (or the zero value of the string sort: the empty string).
func concreteStr(t term) (string, bool) {
	if t.srt.name != "Str" {
		return "", false
	}
	if t.s == "zero_Str" {
		return "", true
	}
	if strings.HasPrefix(t.s, "str_") {
		b, err := hex.DecodeString(strings.TrimPrefix(t.s, "str_"))
		if err == nil {
			return string(b), true
		}
	}
	return "", false
}

func (x *ctx) globalPtr(g *ssa.Global) val {
	t := deref(g.Type())
	name := g.Name()
	if g.Pkg != nil {
		name = g.Pkg.Pkg.Name() + "." + name
	}
	return val{ptr: &loc{base: null, key: "global." + name, typ: t}}
}

// ---------------------------------------------------------------- binary operations

func (x *ctx) binop(op token.Token, a, b term, xt types.Type) term {
	uns := isUnsigned(xt)
	pick := func(u, s string) string {
		if uns {
			return u
		}
		return s
	}
	if op == token.SHL || op == token.SHR {
		if b.srt.w < a.srt.w {
			b = term{fmt.Sprintf("((_ zero_extend %d) %s)", a.srt.w-b.srt.w, b.s), a.srt}
			if v, w, ok := litVal(strings.TrimSuffix(strings.SplitN(b.s, ") ", 2)[1], ")")); ok {
				_ = w
				b = mkbv(v, a.srt.w)
			}
		} else if b.srt.w > a.srt.w {
			if v, _, ok := litVal(b.s); ok {
				if v > uint64(a.srt.w) {
					v = uint64(a.srt.w)
				}
				b = mkbv(v, a.srt.w)
			} else {
				b = term{fmt.Sprintf("(ite (bvuge %s %s) %s ((_ extract %d 0) %s))", b.s, bvlit(uint64(a.srt.w), b.srt.w), bvlit(uint64(a.srt.w), a.srt.w), a.srt.w-1, b.s), a.srt}
			}
		}
	}
	var o string
	res := a.srt
	switch op {
	case token.ADD:
		o = "bvadd"
	case token.SUB:
		o = "bvsub"
	case token.MUL:
		o = "bvmul"
	case token.QUO:
		o = pick("bvudiv", "bvsdiv")
	case token.REM:
		o = pick("bvurem", "bvsrem")
	case token.AND:
		if a.srt.isBool() {
			return term{and(a.s, b.s), sBool}
		}
		o = "bvand"
	case token.OR:
		if a.srt.isBool() {
			return term{or(a.s, b.s), sBool}
		}
		o = "bvor"
	case token.XOR:
		o = "bvxor"
	case token.AND_NOT:
		return x.binop(token.AND, a, term{"(bvnot " + b.s + ")", b.srt}, xt)
	case token.SHL:
		o = "bvshl"
	case token.SHR:
		o = pick("bvlshr", "bvashr")
	case token.EQL:
		if ca, ok := concreteStr(a); ok {
			if cb, ok := concreteStr(b); ok {
				return mkbool(ca == cb)
			}
		}
		return term{eq(a, b), sBool}
	case token.NEQ:
		if ca, ok := concreteStr(a); ok {
			if cb, ok := concreteStr(b); ok {
				return mkbool(ca != cb)
			}
		}
		return term{not(eq(a, b)), sBool}
	case token.LSS:
		o, res = pick("bvult", "bvslt"), sBool
	case token.LEQ:
		o, res = pick("bvule", "bvsle"), sBool
	case token.GTR:
		o, res = pick("bvugt", "bvsgt"), sBool
	case token.GEQ:
		o, res = pick("bvuge", "bvsge"), sBool
	default:
		x.fail("binop %s", op)
	}
	if !a.srt.isBV() {
		// ordering / arithmetic on non-bit-vector sorts (floats, strings): uninterpreted
		fn := "op_" + o + "_" + symName(a.srt.name)
		x.declareFun(fn, []srtT{a.srt, b.srt}, res)
		return term{fmt.Sprintf("(%s %s %s)", fn, a.s, b.s), res}
	}
	if f, ok := foldBin(o, a, b, uns); ok {
		return f
	}
	return term{fmt.Sprintf("(%s %s %s)", o, a.s, b.s), res}
}

func (x *ctx) convert(a term, from, to types.Type) term {
	ts, ok := x.leafSort(to)
	if !ok {
		x.fail("convert to aggregate")
	}
	if ts.isBV() && a.srt.isBV() {
		switch {
		case ts.w == a.srt.w:
			return term{a.s, ts}
		case ts.w < a.srt.w:
			if v, _, ok := litVal(a.s); ok {
				return mkbv(v, ts.w)
			}
			return term{fmt.Sprintf("((_ extract %d 0) %s)", ts.w-1, a.s), ts}
		case isUnsigned(from):
			if v, _, ok := litVal(a.s); ok {
				return mkbv(v, ts.w)
			}
			return term{fmt.Sprintf("((_ zero_extend %d) %s)", ts.w-a.srt.w, a.s), ts}
		default:
			if v, w, ok := litVal(a.s); ok {
				return mkbv(uint64(signExt(v, w)), ts.w)
			}
			return term{fmt.Sprintf("((_ sign_extend %d) %s)", ts.w-a.srt.w, a.s), ts}
		}
	}
	if ts.name == a.srt.name {
		return a
	}
	// int<->float, string conversions: uninterpreted
	fn := "conv_" + symName(a.srt.name) + "_to_" + symName(ts.name)
	x.declareFun(fn, []srtT{a.srt}, ts)
	return term{fmt.Sprintf("(%s %s)", fn, a.s), ts}
}

// ---------------------------------------------------------------- obligations

func (x *ctx) oblige(st *state, kind, tag, site, goal, note string) {
	if x.spec > 0 {
		return
	}
	if goal == "true" {
		// still recorded: a trivially true goal counts as discharged by construction
	}
	ord := ""
	if site != "" {
		k := kind + "|" + tag + "|" + site
		_ = k
	}
	name := fmt.Sprintf("%s/%s", x.con.Target, kind)
	if tag != "" {
		name += "[" + tag + "]"
	}
	if site != "" {
		name += "@" + site + ord
	}
	name += x.siteCtx
	x.obls = append(x.obls, &obligation{Name: name, Kind: kind, Tag: tag, Site: site, Pc: st.pcStrings(), Goal: goal,
		Sig: append([]string(nil), st.sig...), Decls: len(x.decls), Note: note})
}

// ---------------------------------------------------------------- execution

func closureOf(f, root *ssa.Function) bool {
	for p := f.Parent(); p != nil; p = p.Parent() {
		if p == root {
			return true
		}
	}
	return false
}

func isLoopHeader(b *ssa.BasicBlock) bool {
	for _, p := range b.Preds {
		if b.Dominates(p) {
			return true
		}
	}
	return false
}

func loopOrdinal(b *ssa.BasicBlock) int {
	n := 0
	for _, o := range b.Parent().Blocks {
		if isLoopHeader(o) {
			n++
			if o == b {
				return n
			}
		}
	}
	return 0
}

// loopBlocks returns the natural loop of header h.
func loopBlocks(h *ssa.BasicBlock) map[*ssa.BasicBlock]bool {
	in := map[*ssa.BasicBlock]bool{h: true}
	var work []*ssa.BasicBlock
	for _, p := range h.Preds {
		if h.Dominates(p) && !in[p] {
			in[p] = true
			work = append(work, p)
		}
	}
	for len(work) > 0 {
		b := work[len(work)-1]
		work = work[:len(work)-1]
		for _, p := range b.Preds {
			if !in[p] {
				in[p] = true
				work = append(work, p)
			}
		}
	}
	return in
}

func (x *ctx) run(st *state, fr *frame, b *ssa.BasicBlock, idx int, prev *ssa.BasicBlock) []outcome {
	skipPhis := false
	if idx == 0 && prev != nil && isLoopHeader(b) {
		stop, skip := x.loopEntry(st, fr, b, prev)
		if stop {
			return nil
		}
		skipPhis = skip
	}
	for i := idx; i < len(b.Instrs); i++ {
		switch in := b.Instrs[i].(type) {
		case *ssa.DebugRef:
		case *ssa.Phi:
			if skipPhis {
				continue
			}
			for pi, p := range b.Preds {
				if p == prev {
					fr.regs[in] = x.get(fr, st, in.Edges[pi])
				}
			}
		case *ssa.BinOp:
			a, c := x.get(fr, st, in.X), x.get(fr, st, in.Y)
			at, ct := x.asTerm(a, in.X.Type()), x.asTerm(c, in.Y.Type())
			if (in.Op == token.QUO || in.Op == token.REM) && at.srt.isBV() && x.spec == 0 && x.con.Flags["nopanic"] {
				x.oblige(st, "div-by-zero", "", in.Name(), not(eq(ct, mkbv(0, ct.srt.w))), "")
			}
			fr.regs[in] = scalar(x.binop(in.Op, at, ct, in.X.Type()))
		case *ssa.UnOp:
			a := x.get(fr, st, in.X)
			switch in.Op {
			case token.NOT:
				fr.regs[in] = scalar(term{not(a.t.s), sBool})
			case token.SUB:
				if v, w, ok := litVal(a.t.s); ok {
					fr.regs[in] = scalar(mkbv(-v, w))
				} else if a.t.srt.isBV() {
					fr.regs[in] = scalar(term{"(bvneg " + a.t.s + ")", a.t.srt})
				} else {
					fn := "op_neg_" + symName(a.t.srt.name)
					x.declareFun(fn, []srtT{a.t.srt}, a.t.srt)
					fr.regs[in] = scalar(term{fmt.Sprintf("(%s %s)", fn, a.t.s), a.t.srt})
				}
			case token.XOR:
				fr.regs[in] = scalar(term{"(bvnot " + a.t.s + ")", a.t.srt})
			case token.MUL:
				fr.regs[in] = x.load(st, a, in.Type())
			case token.ARROW:
				fr.regs[in] = x.freshVal("recv", in.Type())
			default:
				x.fail("unop %s", in.Op)
			}
		case *ssa.ChangeType:
			fr.regs[in] = x.get(fr, st, in.X)
		case *ssa.Convert:
			a := x.get(fr, st, in.X)
			if a.t.s == "" {
				fr.regs[in] = a
			} else {
				fr.regs[in] = scalar(x.convert(a.t, in.X.Type(), in.Type()))
			}
		case *ssa.MultiConvert:
			a := x.get(fr, st, in.X)
			fr.regs[in] = a
		case *ssa.FieldAddr:
			base := x.get(fr, st, in.X)
			stT := deref(in.X.Type()).Underlying().(*types.Struct)
			ft := stT.Field(in.Field).Type()
			if base.ptr != nil {
				l := *base.ptr
				if l.cell > 0 {
					l.path = append(append([]int(nil), l.path...), in.Field)
				} else {
					l.key = l.key + "." + stT.Field(in.Field).Name()
				}
				l.typ = ft
				fr.regs[in] = val{ptr: &l}
			} else {
				if x.spec == 0 && x.con != nil && x.con.Flags["nilcheck"] {
					x.oblige(st, "nil-deref", "", in.Name(), not(eq(base.t, null)), "")
				}
				fr.regs[in] = val{ptr: &loc{base: base.t, key: structName(deref(in.X.Type())) + "." + stT.Field(in.Field).Name(), typ: ft}}
			}
		case *ssa.Field:
			a := x.get(fr, st, in.X)
			if !a.agg || in.Field >= len(a.fields) {
				x.fail("Field on non-aggregate in %s", fr.fn)
			}
			fr.regs[in] = a.fields[in.Field]
		case *ssa.IndexAddr:
			fr.regs[in] = x.indexAddr(st, fr, in)
		case *ssa.Index:
			// index of an array value or string: opaque
			fr.regs[in] = x.freshVal("index", in.Type())
		case *ssa.Lookup:
			fr.regs[in] = x.mapLookup(st, fr, in)
		case *ssa.Alloc:
			t := deref(in.Type())
			x.fresh++
			id := x.fresh
			x.cellRootType[id] = t
			x.cellAlloc[id] = in
			st.cells[id] = x.zeroVal(t)
			if at, isArr := t.Underlying().(*types.Array); isArr {
				// arrays (variadic argument packs, literals): a fresh reference with a known length
				r := x.freshTerm("array", sRef)
				st.define(not(eq(r, null)))
				if x.spec == 0 {
					x.assumeFreshRef(st, r)
				}
				la := x.arr(st, "Len", false, sInt)
				x.setArr(st, "Len", fmt.Sprintf("(store %s %s %s)", la, r.s, bvlit(uint64(at.Len()), 64)))
				x.knownLen[r.s] = int(at.Len())
				fr.regs[in] = scalar(r)
				delete(st.cells, id)
				continue
			}
			if _, isStruct := t.Underlying().(*types.Struct); isStruct && in.Heap && x.spec == 0 {
				if _, leaf := x.leafSort(t); !leaf {
					// heap object: fresh reference, fields live in heap arrays
					r := x.freshTerm("new_"+structName(t), sRef)
					st.assume(not(eq(r, null)))
					x.assumeFreshRef(st, r)
					x.writeHeap(st, &loc{base: r, key: structName(t), typ: t}, structName(t), t, x.zeroVal(t))
					x.lastAllocType[r.s] = t
					x.typeTag(st, r, types.NewPointer(t))
					fr.regs[in] = scalar(r)
					delete(st.cells, id)
					continue
				}
			}
			fr.regs[in] = val{ptr: &loc{cell: id, typ: t}}
		case *ssa.Store:
			p := x.get(fr, st, in.Addr)
			v := x.get(fr, st, in.Val)
			x.store(st, p, v, in.Val.Type())
		case *ssa.MakeClosure:
			v := val{fn: in.Fn.(*ssa.Function)}
			for _, bd := range in.Bindings {
				v.bind = append(v.bind, x.get(fr, st, bd))
			}
			fr.regs[in] = v
		case *ssa.Extract:
			t := x.get(fr, st, in.Tuple)
			if !t.agg || in.Index >= len(t.fields) {
				x.fail("Extract from non-tuple in %s: %s", fr.fn, in)
			}
			fr.regs[in] = t.fields[in.Index]
		case *ssa.MakeInterface:
			v := x.get(fr, st, in.X)
			isStr := false
			if bt, ok := in.X.Type().Underlying().(*types.Basic); ok && bt.Info()&types.IsString != 0 {
				isStr = true
			}
			if v.t.s != "" && v.t.srt != sRef && !v.agg && isStr && !strings.HasPrefix(fr.fn.Name(), "Zmod_") {
				// a non-pointer value stored in an interface: boxed by an (uninterpreted) function into a non-nil reference
				fn := "box_" + symName(v.t.srt.name)
				x.declareFun(fn, []srtT{v.t.srt}, sRef)
				r := term{fmt.Sprintf("(%s %s)", fn, v.t.s), sRef}
				st.define(not(eq(r, null)))
				v = scalar(r)
			}
			fr.regs[in] = v
		case *ssa.ChangeInterface:
			fr.regs[in] = x.get(fr, st, in.X)
		case *ssa.TypeAssert:
			a := x.get(fr, st, in.X)
			if in.CommaOk {
				ok := x.freshTerm("typeok", sBool)
				res := a
				if a.t.s != "" && a.t.srt == sRef {
					st.define(implies(ok.s, not(eq(a.t, null)))) // a successful assertion means the interface was not nil
					// an assertion to a pointer-to-struct type succeeds exactly when the object carries that type's tag
					// (objects are tagged where they are allocated and where they are received with a static pointer type)
					if id, tagged := x.typeIDOf(in.AssertedType); tagged {
						x.declare("G_rtype", "(Array (_ BitVec 64) (_ BitVec 16))")
						st.define(fmt.Sprintf("(= %s (and (not (= %s %s)) (= (select G_rtype %s) %s)))", ok.s, a.t.s, null.s, a.t.s, bvlit(uint64(id), 16)))
					}
					// a failed assertion yields the zero value
					res = scalar(ite(ok.s, a.t, null))
				}
				fr.regs[in] = val{agg: true, fields: []val{res, scalar(ok)}}
			} else {
				fr.regs[in] = a
			}
		case *ssa.MakeSlice:
			r := x.freshTerm("slice", sRef)
			st.assume(not(eq(r, null)))
			x.assumeFreshRef(st, r)
			ln := x.asTerm(x.get(fr, st, in.Len), in.Len.Type())
			la := x.arr(st, "Len", false, sInt)
			x.setArr(st, "Len", fmt.Sprintf("(store %s %s %s)", la, r.s, ln.s))
			if x.knownLenT == nil {
				x.knownLenT = map[string]term{}
			}
			x.knownLenT[r.s] = ln
			// zeroed elements
			elem := in.Type().Underlying().(*types.Slice).Elem()
			if es, ok := x.leafSort(elem); ok {
				key := x.elemKey(elem)
				ea := x.arr(st, key, true, es)
				z := x.zeroVal(elem).t
				x.setArr(st, key, fmt.Sprintf("(store %s %s ((as const (Array (_ BitVec 64) %s)) %s))", ea, r.s, es.name, z.s))
			}
			fr.regs[in] = scalar(r)
		case *ssa.MakeMap:
			fr.regs[in] = x.makeMap(st, in)
		case *ssa.MapUpdate:
			x.mapUpdate(st, fr, in)
		case *ssa.MakeChan:
			r := x.freshTerm("chan", sRef)
			st.define(not(eq(r, null)))
			x.assumeFreshRef(st, r)
			// ghost: nothing sent yet, capacity as given
			x.ghostWrite(st, "ghost_chanSent", []term{r}, mkbv(0, 64))
			x.ghostWrite(st, "ghost_chanCap", []term{r}, x.asTerm(x.get(fr, st, in.Size), in.Size.Type()))
			fr.regs[in] = scalar(r)
		case *ssa.Send:
			x.chanSend(st, fr, in)
		case *ssa.Slice:
			fr.regs[in] = x.sliceOp(st, fr, in)
		case *ssa.Range:
			m := x.get(fr, st, in.X)
			if mt, ok := in.X.Type().Underlying().(*types.Map); ok {
				// a fresh iteration: nothing visited yet
				ks, _ := x.leafSort(mt.Key())
				key := "G:visited"
				x.hinfo[key] = heapInfo{ksorts: []srtT{ks}, elem: sBool}
				n := x.freshName("G_visited")
				x.declare(n, fmt.Sprintf("(Array %s Bool)", ks.name))
				st.define(fmt.Sprintf("(= %s ((as const (Array %s Bool)) false))", n, ks.name))
				st.heap[key] = n
			}
			fr.regs[in] = m
		case *ssa.Next:
			fr.regs[in] = x.mapNext(st, fr, in)
		case *ssa.Select:
			// a select over receive operations: any ready case may be chosen (a blocking select chooses one of its cases,
			// a non-blocking one may also take the default, index -1); the received values are arbitrary
			for _, ss := range in.States {
				if ss.Dir != types.RecvOnly {
					x.fail("select with a send case is outside the supported subset in %s", fr.fn)
				}
			}
			x.assumed["select: any receive case may be chosen; received values are arbitrary (channels carry no content in the model)"] = true
			idx := x.freshTerm("selected", bvSort(64))
			lo := int64(0)
			if !in.Blocking {
				lo = -1
			}
			st.define(fmt.Sprintf("(and (bvsle %s %s) (bvslt %s %s))", bvlit(uint64(lo), 64), idx.s, idx.s, bvlit(uint64(len(in.States)), 64)))
			fields := []val{scalar(idx), scalar(x.freshTerm("recvok", sBool))}
			for _, ss := range in.States {
				fields = append(fields, x.freshVal("received", ss.Chan.Type().Underlying().(*types.Chan).Elem()))
			}
			fr.regs[in] = val{agg: true, fields: fields}
		case *ssa.Go:
			x.assumed["go statement not modelled (spawned goroutine body is not part of the sequential path)"] = true
		case *ssa.Defer:
			d := deferred{call: in.Common(), instr: in}
			d.fnv = x.get(fr, st, in.Call.Value)
			for _, a := range in.Call.Args {
				d.args = append(d.args, x.get(fr, st, a))
			}
			fr.defers = append(fr.defers, d)
		case *ssa.RunDefers:
			outs := x.runDefers(st, fr, false)
			var res []outcome
			for _, o := range outs {
				if o.panic {
					res = append(res, o)
					continue
				}
				nfr := fr.clone()
				nfr.defers = nil
				res = append(res, x.run(o.st, nfr, b, i+1, prev)...)
			}
			return res
		case *ssa.Call:
			if x.spec == 0 && x.con != nil && len(x.con.Sites) > 0 && (fr.top || (fr.fn.Parent() != nil && closureOf(fr.fn, x.fn))) {
				x.siteAssertions(st, fr, b, in)
			}
			saveFr, saveBlk := x.siteFr, x.siteBlk
			if x.spec == 0 && x.con != nil && (fr.top || (fr.fn.Parent() != nil && closureOf(fr.fn, x.fn))) {
				x.siteFr, x.siteBlk = fr, b
			}
			outs, inline := x.call(st, fr, in.Common(), in, in.Type())
			x.siteFr, x.siteBlk = saveFr, saveBlk
			if !inline {
				continue
			}
			var res []outcome
			for k, o := range outs {
				nfr := fr
				if k < len(outs)-1 {
					nfr = fr.clone()
				}
				if o.panic {
					res = append(res, x.unwind(o.st, nfr)...)
					continue
				}
				nfr.regs[in] = o.ret
				if x.spec == 0 && x.con != nil && len(x.con.SiteAssumes) > 0 && (fr.top || (fr.fn.Parent() != nil && closureOf(fr.fn, x.fn))) {
					x.siteAssumes(o.st, nfr, b, in)
				}
				res = append(res, x.run(o.st, nfr, b, i+1, prev)...)
			}
			return res
		case *ssa.If:
			c := x.get(fr, st, in.Cond).t
			var res []outcome
			conds := []string{c.s, not(c.s)}
			live := 0
			for _, cd := range conds {
				if cd != "false" {
					live++
				}
			}
			// syntactic pruning: a branch whose negation is already a fact of this path is infeasible
			for bi, cond := range conds {
				if cond == "false" || x.spec > 0 {
					continue // (never in specification mode: merged specification values must not depend on the path)
				}
				neg := not(cond)
				for _, f := range st.pc {
					if f.t == neg {
						conds[bi] = "false"
						live--
						break
					}
				}
			}
			if live > 1 && os.Getenv("GOVC_TRACE_IF") != "" && x.spec == 0 {
				debugf("IF %s.%s: %s", fr.fn.Name(), b.Comment, c.s)
			}
			if live > 1 && x.spec == 0 && x.con != nil && x.con.Flags["prune-paths"] {
				// prune-paths: a branch whose condition contradicts the path condition is dropped (one solver query per
				// branch; for functions whose many correlated conditions would otherwise be enumerated as independent)
				for bi, cond := range conds {
					if cond != "false" && cond != "true" && !x.feasible(st, cond) {
						conds[bi] = "false"
						live--
					}
				}
			}
			for bi, cond := range conds {
				if cond == "false" {
					continue
				}
				ns, nfr := st, fr
				if live > 1 {
					x.forks++
					if x.forks > 60000 {
						x.fail("exploration budget exceeded in %s (more than 60000 branch forks while executing %s): a loop without an invariant in an inlined helper, or a path explosion", x.fn, fr.fn)
					}
					if x.forks > 2000 && x.forks%256 == 0 && memoryExhausted() {
						x.fail("exploration budget exceeded in %s (memory, while executing %s): a loop without an invariant in an inlined helper, or a path explosion", x.fn, fr.fn)
					}
					ns, nfr = st.clone(), fr.clone()
				}
				ns.assume(cond)
				if cond != "true" && x.spec == 0 {
					ns.sig = append(ns.sig, fmt.Sprintf("%s.%s:%v", fr.fn.Name(), b.Comment, bi == 0))
				}
				res = append(res, x.run(ns, nfr, b.Succs[bi], 0, b)...)
			}
			return res
		case *ssa.Jump:
			return x.run(st, fr, b.Succs[0], 0, b)
		case *ssa.Return:
			var r val
			switch len(in.Results) {
			case 0:
			case 1:
				r = x.get(fr, st, in.Results[0])
			default:
				r.agg = true
				for _, e := range in.Results {
					r.fields = append(r.fields, x.get(fr, st, e))
				}
			}
			if x.spec == 0 && x.con != nil && len(x.con.Sites[fr.fn.Name()+".return"]) > 0 && (fr.top || (fr.fn.Parent() != nil && closureOf(fr.fn, x.fn))) {
				x.siteAssertionsAt(st, fr, b, "return", true)
			}
			if fr.top {
				x.paths++
				if x.paths > x.maxPaths {
					x.fail("path limit %d exceeded in %s", x.maxPaths, x.fn)
				}
			}
			return []outcome{{st: st, ret: r}}
		case *ssa.Panic:
			debugf("panic instruction in %s (spec=%d): %s", fr.fn, x.spec, in)
			if x.spec == 0 && fr.con != nil && fr.con.Flags["nopanic"] {
				x.oblige(st, "no-panic", "", "panic", "false", "explicit panic reachable")
			}
			return x.unwind(st, fr)
		default:
			x.fail("unsupported instruction %T in %s: %s", in, fr.fn, in)
		}
	}
	x.fail("fell off block %d of %s", b.Index, fr.fn)
	return nil
}

// unwind handles a panic raised in frame fr: run its deferred calls; a recover() resumes at the Recover block.
func (x *ctx) unwind(st *state, fr *frame) []outcome {
	if len(fr.defers) == 0 {
		return []outcome{{st: st, panic: true}}
	}
	st.recoverable, st.recovered = true, false
	outs := x.runDefers(st, fr, true)
	var res []outcome
	for _, o := range outs {
		if o.panic {
			res = append(res, o)
			continue
		}
		if o.st.recovered {
			o.st.recovered, o.st.recoverable = false, false
			nfr := fr.clone()
			nfr.defers = nil
			if fr.fn.Recover != nil {
				res = append(res, x.run(o.st, nfr, fr.fn.Recover, 0, nil)...)
			} else {
				res = append(res, outcome{st: o.st, ret: x.zeroVal(fr.fn.Signature.Results())})
			}
			continue
		}
		o.st.recoverable = false
		res = append(res, outcome{st: o.st, panic: true})
	}
	return res
}

func (x *ctx) runDefers(st *state, fr *frame, panicking bool) []outcome {
	cur := []outcome{{st: st}}
	for i := len(fr.defers) - 1; i >= 0; i-- {
		d := fr.defers[i]
		var next []outcome
		for _, o := range cur {
			if o.panic {
				next = append(next, o)
				continue
			}
			outs := x.callValue(o.st, fr, d.fnv, d.args, d.call, nil)
			next = append(next, outs...)
		}
		cur = next
	}
	return cur
}

func (x *ctx) indexAddr(st *state, fr *frame, in *ssa.IndexAddr) val {
	base := x.get(fr, st, in.X)
	ix := x.asTerm(x.get(fr, st, in.Index), in.Index.Type())
	if ix.srt.w < 64 {
		ix = x.convert(ix, in.Index.Type(), types.Typ[types.Int])
	}
	elem := deref(in.Type())
	switch u := in.X.Type().Underlying().(type) {
	case *types.Slice:
		_ = u
		ln := x.sliceLen(st, base.t)
		if x.spec == 0 {
			x.oblige(st, "in-bounds", "", in.Name(), and(x.binop(token.GEQ, ix, mkbv(0, 64), types.Typ[types.Int]).s, x.binop(token.LSS, ix, ln, types.Typ[types.Int]).s), "")
			st.assume(and(x.binop(token.GEQ, ix, mkbv(0, 64), types.Typ[types.Int]).s, x.binop(token.LSS, ix, ln, types.Typ[types.Int]).s))
			// facts established for an arbitrary index (skolem variable of type int) are used at this index
			x.instantiateUniv(st, ix)
		}
		return val{ptr: &loc{base: base.t, idx: &ix, key: x.elemKey(elem), typ: elem}}
	case *types.Pointer: // pointer to array
		if base.ptr != nil && base.ptr.cell > 0 {
			x.fail("index of local array not supported in %s", fr.fn)
		}
		bt := base.t
		if base.ptr != nil {
			bt = x.asTerm(base, in.X.Type())
		}
		return val{ptr: &loc{base: bt, idx: &ix, key: x.elemKey(elem), typ: elem}}
	}
	x.fail("IndexAddr on %s", in.X.Type())
	return val{}
}

func (x *ctx) sliceOp(st *state, fr *frame, in *ssa.Slice) val {
	base := x.get(fr, st, in.X)
	if p, ok := in.X.Type().Underlying().(*types.Pointer); ok {
		if _, isArr := p.Elem().Underlying().(*types.Array); isArr && in.Low == nil && in.High == nil && base.t.s != "" {
			return base // slice of a whole array: same reference, same length
		}
	}
	if _, ok := in.X.Type().Underlying().(*types.Slice); !ok {
		return x.freshVal("slice", in.Type())
	}
	// s[lo:hi]: fresh slice whose elements are shifted copies
	r := x.freshTerm("subslice", sRef)
	st.define(not(eq(r, null))) // slice headers are abstract references: the result is a new one (also for an empty result)
	x.assumeFreshRef(st, r)
	lo := mkbv(0, 64)
	if in.Low != nil {
		lo = x.asTerm(x.get(fr, st, in.Low), in.Low.Type())
	}
	hi := x.sliceLen(st, base.t)
	if in.High != nil {
		hi = x.asTerm(x.get(fr, st, in.High), in.High.Type())
	}
	la := x.arr(st, "Len", false, sInt)
	x.setArr(st, "Len", fmt.Sprintf("(store %s %s (bvsub %s %s))", la, r.s, hi.s, lo.s))
	elem := in.Type().Underlying().(*types.Slice).Elem()
	if es, ok := x.leafSort(elem); ok && lo.s == bvlit(0, 64) {
		key := x.elemKey(elem)
		ea := x.arr(st, key, true, es)
		x.setArr(st, key, fmt.Sprintf("(store %s %s (select %s %s))", ea, r.s, ea, base.t.s))
	}
	return scalar(r)
}

func (x *ctx) assumeFreshRef(st *state, r term) {
	x.markFresh(st, r)
	// a freshly allocated object differs from every reference the function received
	var names []string
	for n := range x.params {
		names = append(names, n)
	}
	sort.Strings(names)
	for _, n := range names {
		p := x.params[n]
		if p.t.s != "" && p.t.srt == sRef {
			st.assume(not(eq(r, p.t)))
		}
	}
	for _, o := range x.allocated {
		st.assume(not(eq(r, o)))
	}
	x.allocated = append(x.allocated, r)
}

// memoryExhausted: the process heap has grown beyond the exploration budget (all functions verified in parallel share it).
func memoryExhausted() bool {
	var ms runtime.MemStats
	runtime.ReadMemStats(&ms)
	return ms.HeapAlloc > memoryBudget()
}

var memBudget uint64

// memoryBudget: half of the machine's memory (at least 8 GiB); only functions that have already forked more than 2000
// times are stopped when the heap passes it, so a function that explodes does not take the others with it.
func memoryBudget() uint64 {
	if memBudget == 0 {
		memBudget = 8 << 30
		if b, err := os.ReadFile("/proc/meminfo"); err == nil {
			var kb uint64
			if _, err := fmt.Sscanf(string(b), "MemTotal: %d kB", &kb); err == nil && kb*512 > memBudget {
				memBudget = kb * 512
			}
		}
	}
	return memBudget
}

// feasible: the path condition of st together with cond is satisfiable (or the solver does not know).
func (x *ctx) feasible(st *state, cond string) bool {
	var b strings.Builder
	for _, d := range x.decls {
		b.WriteString(d)
		b.WriteByte('\n')
	}
	for _, p := range st.pc {
		b.WriteString("(assert " + p.t + ")\n")
	}
	b.WriteString("(assert " + cond + ")\n")
	sr := solve(b.String(), nil, 3, []string{"z3-new"})
	x.pruneQueries++
	return sr.Status != "unsat"
}
