package main

import (
	"fmt"
	"go/types"
	"sort"
	"strings"

	"golang.org/x/tools/go/ssa"
	"golang.org/x/tools/go/ssa/ssautil"
)

// immutableViolations: the fields declared `immutable` in the contract files are exempt from every havoc (a callee
// with `modifies *` is assumed not to change them). That assumption is checked here, syntactically and for the whole
// repository: a store to such a field is allowed only while its object is under construction, i.e. when the object
// is an allocation of the storing function itself. Anything else is reported as a broken obligation
// immutable[T.f]@function.
func (w *world) immutableViolations() []string {
	if len(w.immutable) == 0 {
		return nil
	}
	var out []string
	for fn := range ssautil.AllFunctions(w.prog) {
		if fn.Blocks == nil || !w.isRepoPkg(fn) {
			continue
		}
		if pos := fn.Pos(); pos.IsValid() {
			file := w.prog.Fset.Position(pos).Filename
			if strings.HasSuffix(file, "_test.go") || strings.HasSuffix(file, "verif_contracts.go") || strings.Contains(file, "zvc_") {
				continue
			}
		}
		if fn.Origin() != nil {
			continue // instantiations repeat the generic body
		}
		for _, b := range fn.Blocks {
			for _, in := range b.Instrs {
				st, ok := in.(*ssa.Store)
				if !ok {
					continue
				}
				fa, ok := st.Addr.(*ssa.FieldAddr)
				if !ok {
					continue
				}
				pt, ok := fa.X.Type().Underlying().(*types.Pointer)
				if !ok {
					continue
				}
				stT, ok := pt.Elem().Underlying().(*types.Struct)
				if !ok {
					continue
				}
				key := structName(pt.Elem()) + "." + stT.Field(fa.Field).Name()
				if !w.immutable[key] {
					continue
				}
				if _, fresh := fa.X.(*ssa.Alloc); fresh {
					continue
				}
				out = append(out, fmt.Sprintf("immutable[%s]@%s: a field that every contract treats as fixed after construction is assigned outside the construction of its object (%s)",
					key, fn.String(), w.prog.Fset.Position(st.Pos())))
			}
		}
	}
	sort.Strings(out)
	return out
}
