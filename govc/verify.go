package main

// Verification of one function against its contract; discharge of the obligations.

import (
	"strconv"
	"fmt"
	"go/types"
	"os"
	"sort"
	"strings"
	"sync"
	"time"

	"golang.org/x/tools/go/ssa"
)

type oblResult struct {
	Name    string            `json:"name"`
	Func    string            `json:"func"`
	Mode    string            `json:"mode"`
	Kind    string            `json:"kind"`
	Tag     string            `json:"tag,omitempty"`
	Status  string            `json:"status"` // discharged | failed | undecided | covered | vacuous
	Solver  string            `json:"solver,omitempty"`
	Ms      int64             `json:"ms"`
	Model   map[string]string `json:"model,omitempty"`
	Sig     []string          `json:"sig,omitempty"`
	Note    string            `json:"note,omitempty"`
	Script  string            `json:"-"`
	SolverO string            `json:"solver_output,omitempty"`
	Trivial bool              `json:"trivial,omitempty"`
	Agreed  []string          `json:"agreed,omitempty"`
	Bounded bool              `json:"bounded,omitempty"` // obligation of a bounded stand-in (never counted as proved)
}

type fnResult struct {
	Con      *Contract
	Mode     string
	Variant  string
	Err      string
	Paths    int
	Obls     []*oblResult
	Assumed  []string
	GenMs    int64
	ModelVar []string
	Skipped  string
}

func (w *world) newCtx(con *Contract, fn *ssa.Function, mode string) *ctx {
	return &ctx{w: w, con: con, fn: fn, mode: mode, seen: map[string]bool{}, hinfo: map[string]heapInfo{}, skolem: map[string]val{}, params: map[string]val{}, lastStoreOf: map[string]string{},
		siteOrd: map[string]int{}, maxPaths: 6000, alias: map[string]string{}, assumed: map[string]bool{}, depthCap: 6,
		cellRootType: map[int]types.Type{}, cellAlloc: map[int]*ssa.Alloc{}, typeIDs: map[string]int{}, lastAllocType: map[string]types.Type{}, memo: map[string][]memoEntry{}, knownLen: map[string]int{}, ghostConst: map[string]term{}}
}

// verifyFunc symbolically executes fn (the function of con, or a concrete implementation of an interface method)
// and returns the obligations with their verdicts.
func (w *world) verifyFunc(con *Contract, fn *ssa.Function, mode string, variant *types.Named, opts *runOpts) (res *fnResult) {
	res = &fnResult{Con: con, Mode: mode}
	if variant != nil {
		res.Variant = variant.Obj().Name()
	}
	t0 := time.Now()
	x := w.newCtx(con, fn, mode)
	defer func() {
		if r := recover(); r != nil {
			if e, ok := r.(engineError); ok {
				res.Err = string(e)
				return
			}
			panic(r)
		}
	}()
	if con.Broken != "" {
		x.fail("%s", con.Broken)
	}
	if fn == nil || len(fn.Blocks) == 0 {
		x.fail("no SSA body for %s", con.Target)
	}
	st := newState()
	fr := &frame{fn: fn, regs: map[ssa.Value]val{}, con: con, top: true}
	if variant != nil {
		x.setupConformance(variant)
		if con.PerVariant == "self" {
			if sp := w.ssaPkgs[con.PkgPath]; sp != nil {
				if f := sp.Func("New" + variant.Obj().Name()); f != nil {
					x.params["variantNew"] = val{fn: f}
				}
				if f := sp.Func("CastPointerTo" + variant.Obj().Name()); f != nil {
					x.params["variantCast"] = val{fn: f}
				}
			}
		}
	}
	var modelVars []string
	for i, p := range fn.Params {
		v := x.freshVal("arg_"+p.Name(), p.Type())
		if fnT, ok := p.Type().Underlying().(*types.Signature); ok && con.Cbs[p.Name()] != nil {
			_ = fnT
			v = val{cb: &cbRef{con: con, spec: con.Cbs[p.Name()], fn: fn}}
		}
		fr.regs[p] = v
		name := p.Name()
		if i < len(con.Params) {
			name = con.Params[i]
		}
		x.params[name] = v
		if v.t.s != "" && (v.t.srt.isBV() || v.t.srt.isBool()) {
			modelVars = append(modelVars, v.t.s)
		}
		if i == 0 && fn.Signature.Recv() != nil && v.t.s != "" && v.t.srt == sRef {
			st.define(not(eq(v.t, null)))
		}
		if v.t.s != "" && v.t.srt == sRef {
			x.noteAllocated(st, v.t)
			x.typeTag(st, v.t, p.Type())
		}
	}
	for _, fv := range fn.FreeVars {
		// closures verified on their own: free variables are arbitrary cells
		x.fresh++
		id := x.fresh
		t := deref(fv.Type())
		x.cellRootType[id] = t
		st.cells[id] = x.freshVal("free_"+fv.Name(), t)
		fr.regs[fv] = val{ptr: &loc{cell: id, typ: t}}
		x.params[fv.Name()] = st.cells[id]
	}
	for _, vd := range con.Vars {
		_ = vd // skolem constants are created on first use by bindArgs
	}
	penv := func(name string, t types.Type) (val, bool) { v, ok := x.params[name]; return v, ok }
	for _, cl := range con.Requires {
		g := x.clauseL1(st, con, cl, penv)
		if variant != nil && g.t.s == "false" {
			// the variant does not offer this feature: the method is never callable under the contract
			res.Skipped = "precondition is constantly false for variant " + res.Variant
			return res
		}
		st.assume(g.t.s)
	}
	x.pre = st.clone()
	for i, cl := range con.Requires {
		vars := skolemVarsOf(con, cl.Expr)
		if len(vars) == 0 {
			continue
		}
		cl := cl
		x.reqFacts = append(x.reqFacts, &univFact{id: fmt.Sprintf("req:%d", i), vars: vars, eval: func(cur *state) string {
			pc := x.pre.clone()
			np := len(pc.pc)
			g := x.clauseL1(pc, con, cl, penv)
			for _, f := range pc.pc[np:] {
				if f.def {
					cur.define(f.t)
				}
			}
			for id, v := range pc.cells {
				if _, ok := cur.cells[id]; !ok {
					cur.cells[id] = v
				}
			}
			return g.t.s
		}})
	}
	if con.HasOwn {
		x.ownFootprint(st.clone(), fr, con, penv)
	}
	// vacuity guard: the precondition must be satisfiable
	x.obls = append(x.obls, &obligation{Name: con.Target + "/cover[requires-satisfiable]", Kind: "cover", Pc: st.pcStrings(), Goal: "false", Decls: len(x.decls)})
	outs := x.run(st, fr, fn.Blocks[0], 0, nil)
	// iterators: the returned function value is applied to a callback under contract (result-callback)
	for name, spec := range con.Cbs {
		if !strings.HasPrefix(name, "result:") {
			continue
		}
		var applied []outcome
		for _, o := range outs {
			if o.panic || o.ret.fn == nil {
				applied = append(applied, o)
				continue
			}
			cbv := val{cb: &cbRef{con: con, spec: spec, fn: fn}}
			for _, o2 := range x.callValue(o.st, fr, o.ret, []val{cbv}, nil, types.NewTuple()) {
				o2.ret = o.ret
				applied = append(applied, o2)
			}
		}
		outs = applied
	}
	normal := 0
	for _, o := range outs {
		if o.panic {
			for _, cl := range con.Ensures {
				if cl.OnPanic {
					goal := x.evalEnsures(con, cl, x.pre.clone(), cloneOrNil(o.st.snaps["lp"]), cloneOrNil(o.st.snaps["lpend"]), o.st, penv, penv)
					x.oblige(o.st, "ensures-on-panic", cl.Tag(), "", goal, "")
				}
			}
			continue
		}
		normal++
		if opts != nil && opts.twins {
			x.obls = append(x.obls, &obligation{Name: con.Target + "/path-cover", Kind: "path-cover", Pc: o.st.pcStrings(), Goal: "false", Sig: append([]string(nil), o.st.sig...), Decls: len(x.decls)})
		}
		renv := func(name string, t types.Type) (val, bool) {
			for i, r := range con.Results {
				if r == name {
					if len(con.Results) == 1 {
						return o.ret, true
					}
					if o.ret.agg && i < len(o.ret.fields) {
						return o.ret.fields[i], true
					}
				}
			}
			return penv(name, t)
		}
		for _, cl := range con.Ensures {
			if cl.OnPanic || (cl.Mode != "" && cl.Mode != mode) {
				continue
			}
			goal := x.evalEnsures(con, cl, x.pre.clone(), cloneOrNil(o.st.snaps["lp"]), cloneOrNil(o.st.snaps["lpend"]), o.st, penv, renv)
			x.oblige(o.st, "ensures", cl.Tag(), "", goal, "")
		}
		if con.Delegates != "" {
			x.delegateObligations(o.st, con, penv, o.ret)
		}
		if len(con.CallsOnly) > 0 {
			// calls-only (checked at every call through a contract, see contractCall): recorded once per path for the expected list
			x.oblige(o.st, "calls-only", strings.Join(con.CallsOnly, ","), "", "true", "")
		}
		if !con.Flags["noframe"] {
			x.frameObligations(o.st, con, penv, o.ret)
		}
		x.fieldInvObligations(o.st, con, penv)
	}
	for key := range con.ClosureLoops {
		if strings.HasSuffix(key, ":0") && !x.siteHit["range:"+strings.TrimSuffix(key, ":0")] {
			x.fail("loop %s: no table Range over that closure is reached in %s", key, con.Target)
		}
	}
	for name := range con.SiteAssumes {
		if !x.siteHit["assume:"+name] {
			x.fail("site %s: assume: no call of %s is reached in %s", name, name, con.Target)
		}
	}
	for name := range con.CbInvs {
		if !x.cbInvHit[name] {
			x.fail("site %s: callback-invariant: no call of %s with a callback contract is reached in %s", name, name, con.Target)
		}
	}
	for name := range con.Sites {
		if !x.siteHit[name] {
			// a call-site assertion that never meets a call would pass vacuously
			x.fail("site %s: no call of %s is reached in %s (calls inside inlined callees do not count)", name, name, con.Target)
		}
	}
	if normal == 0 && len(con.Ensures) > 0 && !con.Flags["noreturn"] {
		x.fail("no normally returning path reaches the postconditions of %s", con.Target)
	}
	res.Paths = x.paths
	res.GenMs = time.Since(t0).Milliseconds()
	for a := range x.assumed {
		res.Assumed = append(res.Assumed, a)
	}
	sort.Strings(res.Assumed)
	// model values are requested for every scalar constant (parameters first)
	seenMV := map[string]bool{}
	for _, m := range modelVars {
		seenMV[m] = true
	}
	for _, d := range x.decls {
		if !strings.HasPrefix(d, "(declare-fun ") || len(modelVars) > 400 {
			continue
		}
		rest := strings.TrimPrefix(d, "(declare-fun ")
		j := strings.Index(rest, " ")
		name := rest[:j]
		tail := rest[j+1:]
		if strings.HasPrefix(tail, "() (_ BitVec") || strings.HasPrefix(tail, "() Bool") {
			if !seenMV[name] {
				seenMV[name] = true
				modelVars = append(modelVars, name)
			}
		}
	}
	// probes: entry values of the scalar fields of pointer-typed parameters (for counterexample replay)
	for _, p := range fn.Params {
		pt, ok := p.Type().Underlying().(*types.Pointer)
		if !ok {
			continue
		}
		stT, ok := pt.Elem().Underlying().(*types.Struct)
		if !ok {
			continue
		}
		pv := fr.regs[p]
		if pv.t.s == "" {
			continue
		}
		for i := 0; i < stT.NumFields(); i++ {
			fs, leaf := x.leafSort(stT.Field(i).Type())
			if !leaf || !(fs.isBV() || fs.isBool()) {
				continue
			}
			arr := x.initialName(structName(pt.Elem()) + "." + stT.Field(i).Name())
			if !x.seen[arr] {
				continue
			}
			name := symName("probe_" + p.Name() + "." + stT.Field(i).Name())
			if !x.seen[name] {
				x.seen[name] = true
				x.decls = append(x.decls, fmt.Sprintf("(define-fun %s () %s (select %s %s))", name, fs.name, arr, pv.t.s))
				modelVars = append(modelVars, name)
			}
		}
	}
	// probes: entry values of the abstract fields of node-typed parameters
	for _, p := range fn.Params {
		if !x.isNodeIface(p.Type()) {
			continue
		}
		pv := fr.regs[p]
		if pv.t.s == "" {
			continue
		}
		for _, f := range []string{"weight", "state", "queueType", "expiresAt", "refreshableAt"} {
			arr := "G_" + f
			hi, ok := x.hinfo["G:"+f]
			if !x.seen[arr] || !ok || !(hi.elem.isBV() || hi.elem.isBool()) || len(hi.ksorts) != 1 {
				continue
			}
			name := symName("probe_" + p.Name() + "." + f)
			if !x.seen[name] {
				x.seen[name] = true
				x.decls = append(x.decls, fmt.Sprintf("(define-fun %s () %s (select %s %s))", name, hi.elem.name, arr, pv.t.s))
				modelVars = append(modelVars, name)
			}
		}
	}
	res.ModelVar = modelVars
	res.Obls = w.discharge(x, con, mode, res.Variant, modelVars, opts)
	return res
}

// setupConformance aliases the abstract node fields to the concrete fields of the variant.
func (x *ctx) setupConformance(variant *types.Named) {
	x.nodeT = variant
	stT := variant.Underlying().(*types.Struct)
	have := map[string]bool{}
	for i := 0; i < stT.NumFields(); i++ {
		f := stT.Field(i).Name()
		have[f] = true
		x.alias["G:"+f] = variant.Obj().Name() + "." + f
	}
	flag := func(name string, v bool) { x.ghostConst["G:"+name] = mkbool(v) }
	flag("hasExp", have["expiresAt"])
	flag("hasRefresh", have["refreshableAt"])
	flag("hasWeight", have["weight"])
	flag("hasSize", have["prev"])
	flag("hasState", have["state"])
	flag("hasExpLinks", have["prevExp"])
}

// frameObligations: every heap key changed by the function must be covered by its modifies clause.
func (x *ctx) frameObligations(st *state, con *Contract, penv envFn, ret val) {
	x.frameCheck(st, nil, x.pre, con, con.Mods, penv, ret, "frame", nil)
}

// frameCheck: every heap key whose version differs between base (nil: the initial heap) and st must be covered by mods
// (their location arguments are evaluated in evalPre).
func (x *ctx) frameCheck(st, base, evalPre *state, con *Contract, mods []*ModItem, penv envFn, ret val, kind string, exempt func(string) bool) {
	whole := map[string]bool{}
	allowAll := false
	locs := map[string][]string{} // key -> index terms allowed to change
	for _, mi := range mods {
		switch mi.Kind {
		case "whole":
			if mi.Type == "*" {
				allowAll = true
			} else if mi.Field == "*" {
				whole[mi.Type+".*"] = true
			} else if mi.Type == "node" {
				whole[x.akey("G:"+mi.Field)] = true
			} else {
				whole[mi.Type+"."+mi.Field] = true
			}
		case "ghostall":
			whole[x.ghostKey(mi.Ghost)] = true
		case "wholekey":
			whole[mi.Field] = true
		case "allmaps":
			for k := range x.hinfo {
				if strings.HasPrefix(k, "G:mapP_") || strings.HasPrefix(k, "G:mapV_") || k == "G:mapN" {
					whole[k] = true
				}
			}
		case "mapof":
			f := x.synth(con, mi.ArgFns[0])
			v := x.evalSpecFn(evalPre, f, nil, x.bindArgs(f, nil, penv))
			for k := range x.hinfo {
				if strings.HasPrefix(k, "G:mapP_") || strings.HasPrefix(k, "G:mapV_") || k == "G:mapN" {
					locs[k] = append(locs[k], v.t.s)
				}
			}
		case "resultfield":
			if ret.t.s != "" {
				k := x.akey("G:" + mi.Field)
				locs[k] = append(locs[k], ret.t.s)
			}
		case "ghost":
			if len(mi.ArgFns) == 0 {
				whole[x.ghostKey(mi.Ghost)] = true
				continue
			}
			// nested ghost locations: allowed to change at the first index only (coarse)
			f := x.synth(con, mi.ArgFns[0])
			v := x.evalSpecFn(evalPre, f, nil, x.bindArgs(f, nil, penv))
			if len(mi.ArgFns) == 1 {
				locs[x.ghostKey(mi.Ghost)] = append(locs[x.ghostKey(mi.Ghost)], v.t.s)
			} else {
				locs[x.ghostKey(mi.Ghost)] = append(locs[x.ghostKey(mi.Ghost)], v.t.s)
			}
		case "field":
			f := x.synth(con, mi.ArgFns[0])
			v := x.evalSpecFn(evalPre, f, nil, x.bindArgs(f, nil, penv))
			bt := x.modBaseType(f)
			if x.isNodeIface(bt) {
				k := x.akey("G:" + mi.Field)
				locs[k] = append(locs[k], v.t.s)
			} else {
				ms := &modSet{keys: map[string]bool{}, cells: map[int]bool{}}
				if stT, ok := deref(bt).Underlying().(*types.Struct); ok {
					for i := 0; i < stT.NumFields(); i++ {
						if stT.Field(i).Name() == mi.Field {
							x.addLeafKeys(structName(deref(bt))+"."+mi.Field, stT.Field(i).Type(), ms)
						}
					}
				}
				for k := range ms.keys {
					locs[k] = append(locs[k], v.t.s)
				}
			}
		case "elems", "elem":
			f := x.synth(con, mi.ArgFns[0])
			v := x.evalSpecFn(evalPre, f, nil, x.bindArgs(f, nil, penv))
			bt := x.modBaseType(f)
			if sl, ok := bt.Underlying().(*types.Slice); ok {
				locs[x.elemKey(sl.Elem())] = append(locs[x.elemKey(sl.Elem())], v.t.s)
			}
		}
	}
	if allowAll {
		return
	}
	var keys []string
	for k := range st.heap {
		keys = append(keys, k)
	}
	sort.Strings(keys)
	for _, k := range keys {
		if whole[k] || frameExempt(k) || (exempt != nil && exempt(k)) {
			continue
		}
		if j := strings.Index(k, "."); j > 0 && whole[k[:j]+".*"] {
			continue
		}
		if strings.HasPrefix(k, "G:") && whole["node.*"] {
			continue
		}
		cur := st.heap[k]
		init := x.initialName(k)
		if base != nil {
			if b, ok := base.heap[k]; ok {
				init = b
			}
		}
		if cur == init {
			continue
		}
		if x.mode == "itf" {
			isItf := false
			for _, ik := range x.w.itfKeys {
				if ik == k {
					isItf = true
				}
			}
			if isItf {
				continue // changed by other goroutines between critical sections: not this function's frame
			}
		}
		if hi, ok := x.hinfo[k]; ok {
			srt := fmt.Sprintf("(Array (_ BitVec 64) %s)", hi.elem.name)
			if hi.indexed {
				srt = fmt.Sprintf("(Array (_ BitVec 64) (Array (_ BitVec 64) %s))", hi.elem.name)
			}
			if len(hi.ksorts) > 0 || strings.HasPrefix(k, "G:") {
				srt = ghostSort(hi)
			}
			if init == x.initialName(k) {
				x.declare(init, srt)
			}
		}
		allowed := init
		if hi := x.hinfo[k]; (strings.HasPrefix(k, "G:") && len(hi.ksorts) >= 1 && hi.ksorts[0] == sRef) || !strings.HasPrefix(k, "G:") {
			// objects allocated by this function are not part of the caller's frame
			for _, a := range x.allocated[x.allocFrom:] {
				allowed = fmt.Sprintf("(store %s %s (select %s %s))", allowed, a.s, cur, a.s)
			}
		}
		for _, l := range locs[k] {
			allowed = fmt.Sprintf("(store %s %s (select %s %s))", allowed, l, cur, l)
		}
		x.oblige(st, kind, k, "", fmt.Sprintf("(= %s %s)", cur, allowed), "location written but not listed in modifies")
	}
}

// fieldInvObligations: a function re-establishes the global invariant of every ghost field location it may modify.
func (x *ctx) fieldInvObligations(st *state, con *Contract, penv envFn) {
	for _, mi := range con.Mods {
		if mi.Kind != "field" {
			continue
		}
		f := x.synth(con, mi.ArgFns[0])
		if !x.isNodeIface(x.modBaseType(f)) {
			continue
		}
		key := "G:" + mi.Field
		ref := x.w.fieldInv[key]
		if ref == nil {
			continue
		}
		base := x.evalSpecFn(x.pre, f, nil, x.bindArgs(f, nil, penv))
		stub := x.w.findStub("ghost_" + mi.Field)
		hi := x.ghostInfo("ghost_"+mi.Field, stub.Signature)
		x.inInv = true // read without assuming the invariant
		var cur term
		if ak := x.alias[key]; ak != "" {
			cur = x.readLeafHeap(st, &loc{base: base.t}, ak, hi.elem)
		} else {
			cur = term{fmt.Sprintf("(select %s %s)", x.ghostArr(st, "ghost_"+mi.Field, hi), base.t.s), hi.elem}
		}
		x.inInv = false
		if g, ok := x.fieldInvGoal(st, key, cur); ok {
			x.oblige(st, "field-invariant", mi.Field, "", g, "global invariant of the abstract field must hold for every location the function may modify")
		}
	}
}

// frameExempt: bookkeeping arrays of freshly allocated objects and engine ghosts are not part of the frame.
func frameExempt(k string) bool {
	switch {
	case k == "Len", k == "G:allocd", strings.HasPrefix(k, "G:lp"), strings.HasPrefix(k, "G:clp"), k == "G:visited",
		strings.HasPrefix(k, "deref."), strings.HasPrefix(k, "G:arg_"), strings.HasPrefix(k, "G:ret_"), strings.HasPrefix(k, "G:last_"):
		return true
	}
	return false
}

func (x *ctx) initialName(key string) string {
	if strings.HasPrefix(key, "G:") {
		return "G_" + symName(strings.TrimPrefix(key, "G:"))
	}
	return "H_" + symName(key)
}

func cloneOrNil(s *state) *state {
	if s == nil {
		return nil
	}
	return s.clone()
}

type runOpts struct {
	budgetS   int
	solvers   []string
	dumpDir   string
	thorough  bool
	twins     bool
	allAgree  bool
	seed      int
	verbose   bool
	onlyLabel string
}

var scriptSem = make(chan struct{}, 20)

// declSlicer keeps, for one obligation, only the declarations in the cone of influence of its formulas: a symbol is
// declared when it is used; a background assertion (allocation facts, distinctness, definitions) is kept when it
// mentions a symbol already in the cone, and then contributes its own symbols. Dropping an assertion only weakens the
// hypotheses, so a discharged obligation stays discharged with the full set; the scripts become small and fast.
type declSlicer struct {
	decls  []string
	name   []string   // declared / defined symbol ("" for assertions)
	syms   [][]string // declared symbols mentioned by the declaration (other than its own name)
	isName map[string]bool
}

func smtTokens(s string, f func(string)) {
	start := -1
	for i := 0; i <= len(s); i++ {
		if i == len(s) || s[i] == ' ' || s[i] == '(' || s[i] == ')' || s[i] == '\n' || s[i] == '\t' {
			if start >= 0 {
				f(s[start:i])
				start = -1
			}
			continue
		}
		if start < 0 {
			start = i
		}
	}
}

func newDeclSlicer(decls []string) *declSlicer {
	sl := &declSlicer{decls: decls, name: make([]string, len(decls)), syms: make([][]string, len(decls)), isName: map[string]bool{}}
	for i, d := range decls {
		if strings.HasPrefix(d, "(declare-fun ") || strings.HasPrefix(d, "(declare-sort ") || strings.HasPrefix(d, "(define-fun ") || strings.HasPrefix(d, "(declare-const ") {
			f := strings.Fields(d)
			if len(f) > 1 {
				sl.name[i] = strings.Trim(f[1], "()")
				sl.isName[sl.name[i]] = true
			}
		}
	}
	for i, d := range decls {
		seen := map[string]bool{}
		smtTokens(d, func(t string) {
			if sl.isName[t] && t != sl.name[i] && !seen[t] {
				seen[t] = true
				sl.syms[i] = append(sl.syms[i], t)
			}
		})
	}
	return sl
}

func (sl *declSlicer) slice(roots []string) []string {
	need := map[string]bool{}
	for _, r := range roots {
		smtTokens(r, func(t string) {
			if sl.isName[t] {
				need[t] = true
			}
		})
	}
	in := make([]bool, len(sl.decls))
	for changed := true; changed; {
		changed = false
		for i := range sl.decls {
			if in[i] {
				continue
			}
			take := false
			if sl.name[i] != "" {
				take = need[sl.name[i]]
			} else {
				for _, t := range sl.syms[i] {
					if need[t] {
						take = true
						break
					}
				}
			}
			if take {
				in[i] = true
				changed = true
				for _, t := range sl.syms[i] {
					need[t] = true
				}
			}
		}
	}
	var out []string
	for i, d := range sl.decls {
		if in[i] {
			out = append(out, d)
		}
	}
	return out
}

// discharge sends every obligation to the solvers.
func (w *world) discharge(x *ctx, con *Contract, mode, variant string, modelVars []string, opts *runOpts) []*oblResult {
	// unique names: ordinal per identical name
	count := map[string]int{}
	for _, o := range x.obls {
		count[o.Name]++
	}
	ord := map[string]int{}
	sl := newDeclSlicer(x.decls)
	results := make([]*oblResult, len(x.obls))
	var wg sync.WaitGroup
	for i, o := range x.obls {
		name := o.Name
		if count[o.Name] > 1 {
			ord[o.Name]++
			name = fmt.Sprintf("%s#%d", o.Name, ord[o.Name])
		}
		if variant != "" {
			name = variant + ":" + name
		}
		r := &oblResult{Name: name, Func: con.Target, Mode: mode, Kind: o.Kind, Tag: o.Tag, Sig: o.Sig, Note: o.Note}
		results[i] = r
		if n, _ := strconv.Atoi(os.Getenv("GOVC_DEBUG_FIRST")); n > 0 && i >= n {
			r.Status = "undecided" // development aid: only the first n obligations are sent to the solvers
			r.SolverO = "skipped (GOVC_DEBUG_FIRST)"
			continue
		}
		if o.Goal == "true" {
			r.Status, r.Trivial = "discharged", true
			r.Solver = "syntactic"
			continue
		}
		wg.Add(1)
		go func(o *obligation, r *oblResult) {
			defer wg.Done()
			// the script is built only when a slot is free and kept only for obligations that do not discharge
			// (thousands of paths times megabytes of declarations would not fit into memory otherwise)
			scriptSem <- struct{}{}
			defer func() { <-scriptSem }()
			var b strings.Builder
			roots := append(append([]string{o.Goal}, o.Pc...), modelVars...)
			for _, d := range sl.slice(roots) {
				b.WriteString(d)
				b.WriteByte('\n')
			}
			for _, p := range o.Pc {
				b.WriteString("(assert " + p + ")\n")
			}
			b.WriteString("(assert (not " + o.Goal + "))\n")
			script := b.String()
			defer func() {
				if r.Status == "failed" || r.Status == "undecided" || r.Status == "vacuous" {
					r.Script = script
				}
			}()
			mv := modelVars
			if o.Kind == "cover" || o.Kind == "path-cover" {
				mv = nil
			}
			sr := solve(script, mv, opts.budgetS, opts.solvers)
			if opts.allAgree && o.Kind != "cover" && o.Kind != "path-cover" && sr.Status == "unsat" {
				// thorough tier: every solver that reaches a verdict must agree
				for _, sp := range solvers {
					if sp.name == sr.Solver {
						continue
					}
					r2 := solve(script, nil, opts.budgetS, []string{sp.name})
					if r2.Status == "sat" {
						sr = solveResult{Status: "unknown", Solver: sr.Solver + "!=" + sp.name, Raw: "solvers disagree: " + sr.Solver + " unsat, " + sp.name + " sat"}
						break
					}
					if r2.Status == "unsat" {
						r.Agreed = append(r.Agreed, sp.name)
					}
				}
			}
			if sr.Status != "unsat" && sr.Status != "sat" && o.Kind != "cover" {
				// one retry with a larger budget on all solvers
				sr2 := solve(script, mv, opts.budgetS*4, nil)
				if sr2.Status == "unsat" || sr2.Status == "sat" {
					sr = sr2
				}
			}
			r.Solver, r.Ms = sr.Solver, sr.Ms
			switch {
			case o.Kind == "path-cover":
				switch sr.Status {
				case "unsat":
					r.Status = "infeasible-path"
				default:
					r.Status = "covered"
				}
			case o.Kind == "cover":
				switch sr.Status {
				case "sat":
					r.Status = "covered"
				case "unsat":
					r.Status = "vacuous"
				default:
					r.Status = "covered" // undecided cover queries are not counted against the function
					r.Note = "cover query undecided: " + sr.Status
				}
			case sr.Status == "unsat":
				r.Status = "discharged"
			case sr.Status == "sat":
				r.Status = "failed"
				r.Model = sr.Model
			default:
				r.Status = "undecided"
				r.SolverO = strings.TrimSpace(sr.Raw)
				if len(r.SolverO) > 400 {
					r.SolverO = r.SolverO[:400]
				}
			}
			if opts.dumpDir != "" && (os.Getenv("GOVC_DUMP_ALL") != "" || r.Status == "failed" || r.Status == "undecided" || r.Status == "vacuous") {
				dumpScript(opts.dumpDir, variant+con.Target+"_"+mode+"_"+r.Name, "(set-logic ALL)\n"+script+"(check-sat)\n(get-model)\n")
			}
		}(o, r)
	}
	wg.Wait()
	return results
}

func debugf(format string, a ...any) {
	if os.Getenv("GOVC_DEBUG") != "" {
		fmt.Fprintf(os.Stderr, format+"\n", a...)
	}
}

// delegateObligations: `delegates TARGET on EXPR` — on this path the function made exactly one call through a contract,
// that call went to TARGET on the receiver EXPR (evaluated in the entry state), the function's own parameters were
// passed through in order, and the results of the call are returned unchanged.
func (x *ctx) delegateObligations(st *state, con *Contract, penv envFn, ret val) {
	tag := "delegates-to-" + shortTarget(con.Delegates)
	if len(st.dcalls) != 1 || st.dcalls[0].target != con.Delegates {
		var got []string
		for _, r := range st.dcalls {
			got = append(got, r.target)
		}
		x.oblige(st, "delegates", tag, "exactly-one-call", "false", "calls made: "+strings.Join(got, ", "))
		return
	}
	rec := st.dcalls[0]
	eqv := func(a, b val) (string, bool) {
		var ta, tb []term
		ok := true
		flattenPlain(a, &ta, &ok)
		flattenPlain(b, &tb, &ok)
		if !ok || len(ta) != len(tb) {
			return "", false
		}
		var cs []string
		for i := range ta {
			if ta[i].srt.name != tb[i].srt.name {
				return "", false
			}
			cs = append(cs, eq(ta[i], tb[i]))
		}
		return and(cs...), true
	}
	if con.DelegateFn != "" {
		f := x.synth(con, con.DelegateFn)
		want := x.evalSpecFn(x.pre.clone(), f, nil, x.bindArgs(f, nil, penv))
		if g, ok := eqv(rec.args[0], want); ok {
			x.oblige(st, "delegates", tag, "receiver", g, "")
		} else {
			x.oblige(st, "delegates", tag, "receiver", "false", "receiver not comparable")
		}
	}
	// own parameters (receiver excluded) are the callee's arguments (receiver excluded), in order
	own := x.fn.Params
	if x.fn.Signature.Recv() != nil {
		own = own[1:]
	}
	cargs := rec.args
	if len(cargs) > 0 && con.DelegateFn != "" {
		cargs = cargs[1:]
	}
	var wantArgs []val
	var wantNames []string
	if con.HasDelegateArgs {
		for i, fnm := range con.DelegateArgFns {
			f := x.synth(con, fnm)
			wantArgs = append(wantArgs, x.evalSpecFn(x.pre.clone(), f, nil, x.bindArgs(f, nil, penv)))
			wantNames = append(wantNames, fmt.Sprint(i))
		}
	} else {
		for _, p := range own {
			wantArgs = append(wantArgs, x.params[p.Name()])
			wantNames = append(wantNames, p.Name())
		}
	}
	if len(wantArgs) != len(cargs) {
		x.oblige(st, "delegates", tag, "arguments", "false", "argument count differs")
	} else {
		for i, pv := range wantArgs {
			if pv.cb != nil || cargs[i].cb != nil || pv.fn != nil || cargs[i].fn != nil {
				if pv.cb != cargs[i].cb || pv.fn != cargs[i].fn {
					x.oblige(st, "delegates", tag, "argument-"+wantNames[i], "false", "function argument not passed through")
				} else {
					x.oblige(st, "delegates", tag, "argument-"+wantNames[i], "true", "")
				}
				continue
			}
			if g, ok := eqv(cargs[i], pv); ok {
				x.oblige(st, "delegates", tag, "argument-"+wantNames[i], g, "")
			} else {
				x.oblige(st, "delegates", tag, "argument-"+wantNames[i], "false", "argument not comparable")
			}
		}
	}
	if ret.iter != nil || rec.ret.iter != nil || ret.fn != nil || rec.ret.fn != nil {
		if ret.iter == rec.ret.iter && ret.fn == rec.ret.fn {
			x.oblige(st, "delegates", tag, "result", "true", "")
		} else {
			x.oblige(st, "delegates", tag, "result", "false", "the returned iterator is not the callee's")
		}
		return
	}
	if ret.t.s != "" || ret.agg {
		if g, ok := eqv(ret, rec.ret); ok {
			x.oblige(st, "delegates", tag, "result", g, "")
		} else {
			x.oblige(st, "delegates", tag, "result", "false", "result not comparable")
		}
	}
}
