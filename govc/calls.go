package main

// Call resolution: built-in models, spec stubs, contracts at call sites, inlining, callbacks, loops, clause evaluation.

import (
	"fmt"
	"go/token"
	"go/types"
	"os"
	"sort"
	"strconv"
	"strings"

	"golang.org/x/tools/go/ssa"
)

func fnKey(fn *ssa.Function) string {
	if o := fn.Origin(); o != nil {
		fn = o
	}
	pkg := ""
	if fn.Pkg != nil {
		pkg = fn.Pkg.Pkg.Path()
	} else if fn.Object() != nil && fn.Object().Pkg() != nil {
		pkg = fn.Object().Pkg().Path()
	}
	name := fn.Name()
	if fn.Signature.Recv() != nil {
		rt := fn.Signature.Recv().Type()
		ptr := ""
		if p, ok := rt.(*types.Pointer); ok {
			rt = p.Elem()
			ptr = "*"
		}
		tn := "?"
		if n, ok := rt.(*types.Named); ok {
			tn = n.Origin().Obj().Name()
		}
		_ = ptr
		name = tn + "." + name
	}
	return pkg + "." + name
}

func contractKeyOf(c *Contract) string {
	t := c.Target
	if strings.HasPrefix(t, "(") {
		j := strings.Index(t, ")")
		t = strings.TrimPrefix(t[1:j], "*") + t[j+1:]
	}
	return c.PkgPath + "." + t
}

// call executes one call instruction. If inline is false the result has been bound in fr.regs.
func (x *ctx) call(st *state, fr *frame, c *ssa.CallCommon, in *ssa.Call, rt types.Type) ([]outcome, bool) {
	var args []val
	for _, a := range c.Args {
		args = append(args, x.get(fr, st, a))
	}
	if c.IsInvoke() {
		recv := x.get(fr, st, c.Value)
		outs := x.invoke(st, fr, recv, c.Method, args, c.Value.Type(), rt)
		return outs, true
	}
	fnv := x.get(fr, st, c.Value)
	return x.callValue(st, fr, fnv, args, c, rt), true
}

func (x *ctx) ret1(st *state, v val) []outcome { return []outcome{{st: st, ret: v}} }

// callValue calls a function value with already evaluated arguments.
func (x *ctx) callValue(st *state, fr *frame, fnv val, args []val, c *ssa.CallCommon, rt types.Type) []outcome {
	if rt == nil && c != nil {
		rt = c.Signature().Results()
		if c.Signature().Results().Len() == 1 {
			rt = c.Signature().Results().At(0).Type()
		}
	}
	if strings.HasPrefix(fnv.origin, "builtin:") {
		return x.builtin(st, fr, strings.TrimPrefix(fnv.origin, "builtin:"), args, c, rt)
	}
	if fnv.cb != nil {
		return x.callbackCall(st, fr, fnv.cb, args, rt)
	}
	if fnv.recv != nil && fnv.fn == nil {
		x.fail("interface method value call not supported")
	}
	if fnv.fn == nil && fnv.t.s != "" {
		// a function value read back from memory: the closure that was stored there (syntactically forwarded loads only)
		if fv, ok := x.fnVals[fnv.t.s]; ok {
			fnv = fv
			if fnv.cb != nil {
				return x.callbackCall(st, fr, fnv.cb, args, rt)
			}
		}
	}
	if fnv.fn == nil {
		// unknown function value: field-specific model or the user-callback rule
		return x.unknownCall(st, fr, fnv, args, c, rt)
	}
	callee := fnv.fn
	x.lastInst = fnv.fn
	if o := callee.Origin(); o != nil {
		callee = o
	}
	full := append(append([]val(nil), fnv.bind...), args...)
	_ = full
	// bound-method and thunk wrappers
	if callee.Synthetic != "" && strings.HasPrefix(callee.Synthetic, "bound method wrapper") {
		if fo, ok := callee.Object().(*types.Func); ok {
			if _, isIface := fo.Type().(*types.Signature).Recv().Type().Underlying().(*types.Interface); isIface && len(fnv.bind) > 0 {
				return x.invoke(st, fr, fnv.bind[0], fo, args, fo.Type().(*types.Signature).Recv().Type(), rt)
			}
		}
		m := x.w.prog.FuncValue(callee.Object().(*types.Func))
		if m == nil {
			m = x.w.prog.FuncValue(callee.Object().(*types.Func).Origin())
		}
		if m == nil {
			x.fail("cannot resolve bound method %s", callee)
		}
		if o := m.Origin(); o != nil {
			m = o
		}
		if _, isIface := callee.Object().(*types.Func).Type().(*types.Signature).Recv().Type().Underlying().(*types.Interface); isIface {
			return x.invoke(st, fr, fnv.bind[0], callee.Object().(*types.Func), args, callee.Object().(*types.Func).Type().(*types.Signature).Recv().Type(), rt)
		}
		return x.callStatic(st, fr, m, nil, append([]val{fnv.bind[0]}, args...), rt)
	}
	return x.callStatic(st, fr, callee, fnv.bind, args, rt)
}

func (x *ctx) callStatic(st *state, fr *frame, callee *ssa.Function, bind []val, args []val, rt types.Type) []outcome {
	if o := callee.Origin(); o != nil {
		callee = o
	}
	key := fnKey(callee)
	name := callee.Name()
	// spec stubs
	switch {
	case name == "implies" && len(args) == 2:
		return x.ret1(st, scalar(term{implies(args[0].t.s, args[1].t.s), sBool}))
	case name == "same" && len(args) == 2:
		return x.ret1(st, scalar(term{x.valEq(args[0], args[1]), sBool}))
	case name == "mutexHeld" && len(args) == 1 && x.spec > 0:
		// specification access to the lock flag of a sync.Mutex (sequential model: held or not)
		l := x.recvLoc(st, args[0], callee.Signature.Params().At(0).Type())
		rd, _ := x.rw(st, l, sBool)
		return x.ret1(st, scalar(rd()))
	case name == "iff" && len(args) == 2:
		return x.ret1(st, scalar(term{eq(args[0].t, args[1].t), sBool}))
	case strings.HasPrefix(name, "ghost_"):
		return x.ret1(st, x.ghostRead(st, name, callee, args))
	case strings.HasPrefix(name, "Ghost_"):
		return x.ret1(st, x.ghostRead(st, "ghost_"+strings.TrimPrefix(name, "Ghost_"), callee, args))
	}
	if outs, ok := x.model(st, fr, key, callee, args, rt); ok {
		return outs
	}
	if con := x.w.contracts[key]; con != nil && callee.Parent() == nil && !(x.spec > 0 && con.Flags["inline"]) &&
		!(x.con != nil && x.con.Flags["bodies"] && (con.PkgPath == x.con.PkgPath || !con.Flags["assumed"])) {
		// (a `bodies` harness executes the real code instead of contracts: of every function of its own package, and of the verified functions of other packages; assumed contracts of other packages stay in force)
		if x.spec > 0 && !con.Flags["pure"] {
			// real functions called from specifications are inlined (they must be side-effect free)
			return x.inline(st, fr, callee, bind, args)
		}
		if con.Flags["inline"] {
			return x.inline(st, fr, callee, bind, args)
		}
		if con.Delegates != "" && callee.Blocks != nil {
			// a delegating wrapper (verified on its own to be exactly one call of its target) is executed through its
			// body, so that the caller gets the target's contract; for the caller's own `delegates` clause it counts as
			// one call of the wrapper
			n0 := len(st.dcalls)
			chain := x.con != nil && (x.con.Delegates == con.Target || x.inheriting > 0)
			if chain {
				x.inheriting++ // the target delegates further: the whole chain's preconditions are inherited
			}
			outs := x.inline(st, fr, callee, bind, args)
			if chain {
				x.inheriting--
			}
			for i := range outs {
				if len(outs[i].st.dcalls) >= n0 {
					outs[i].st.dcalls = append(append([]callRec(nil), outs[i].st.dcalls[:n0]...), callRec{target: con.Target, args: args, ret: outs[i].ret})
				}
			}
			return outs
		}
		return x.contractCall(st, fr, con, callee, args, rt)
	}
	if callee.Blocks == nil {
		if x.w.isRepoPkg(callee) {
			x.fail("no body for %s", key)
		}
		return x.externalCall(st, fr, key, callee, args, rt)
	}
	if !x.w.isRepoPkg(callee) {
		return x.externalCall(st, fr, key, callee, args, rt)
	}
	return x.inline(st, fr, callee, bind, args)
}

func (x *ctx) inline(st *state, fr *frame, callee *ssa.Function, bind []val, args []val) []outcome {
	if x.spec > 0 && !x.inMerge {
		// specification mode: every inlined call is merged into a single outcome (pure functions)
		return x.ret1(st, x.evalSpecFn(st, callee, bind, args))
	}
	x.inMerge = false
	if fr.depth > x.depthCap {
		x.fail("inlining too deep at %s (from %s)", callee, fr.fn)
	}
	nfr := &frame{fn: callee, regs: make(map[ssa.Value]val, 16), depth: fr.depth + 1}
	if len(bind) != len(callee.FreeVars) {
		x.fail("closure %s: %d bindings for %d free variables", callee, len(bind), len(callee.FreeVars))
	}
	for i, fv := range callee.FreeVars {
		nfr.regs[fv] = bind[i]
	}
	if len(args) != len(callee.Params) {
		x.fail("call of %s with %d args for %d params", callee, len(args), len(callee.Params))
	}
	for i, p := range callee.Params {
		nfr.regs[p] = args[i]
	}
	if len(callee.Blocks) == 0 {
		x.fail("no body for %s", callee)
	}
	x.frames = append(x.frames, fr)
	outs := x.run(st, nfr, callee.Blocks[0], 0, nil)
	x.frames = x.frames[:len(x.frames)-1]
	return outs
}

func (x *ctx) valEq(a, b val) string {
	if a.agg || b.agg {
		var parts []string
		for i := range a.fields {
			if i < len(b.fields) {
				parts = append(parts, x.valEq(a.fields[i], b.fields[i]))
			}
		}
		return and(parts...)
	}
	if a.t.s == "" || b.t.s == "" {
		if a.fn != nil && b.fn != nil && len(a.bind) == 0 && len(b.bind) == 0 {
			return fmt.Sprint(a.fn == b.fn)
		}
		// function values compare by their references (a function value stored in memory is read back as its reference)
		isF := func(v val) bool { return v.fn != nil || v.cb != nil }
		if (isF(a) || a.t.s != "") && (isF(b) || b.t.s != "") {
			ta, tb := a.t, b.t
			if ta.s == "" {
				ta = x.asTerm(a, nil)
			}
			if tb.s == "" {
				tb = x.asTerm(b, nil)
			}
			if ta.srt.name == tb.srt.name {
				return eq(ta, tb)
			}
		}
		x.fail("same(): values are not comparable")
	}
	if a.t.srt.name != b.t.srt.name {
		x.fail("same(): srtT mismatch %s vs %s", a.t.srt.name, b.t.srt.name)
	}
	return eq(a.t, b.t)
}

// ---------------------------------------------------------------- ghost state

func (x *ctx) ghostKey(name string) string { return "G:" + strings.TrimPrefix(name, "ghost_") }

func (x *ctx) ghostInfo(name string, sig *types.Signature) heapInfo {
	key := x.ghostKey(name)
	if hi, ok := x.hinfo[key]; ok {
		return hi
	}
	hi := heapInfo{}
	for i := 0; i < sig.Params().Len(); i++ {
		s, ok := x.leafSort(sig.Params().At(i).Type())
		if !ok {
			x.fail("ghost %s: aggregate parameter", name)
		}
		hi.ksorts = append(hi.ksorts, s)
	}
	if sig.Results().Len() != 1 {
		x.fail("ghost %s must have one result", name)
	}
	s, ok := x.leafSort(sig.Results().At(0).Type())
	if !ok {
		x.fail("ghost %s: aggregate result", name)
	}
	hi.elem = s
	x.hinfo[key] = hi
	return hi
}

func (x *ctx) ghostArr(st *state, name string, hi heapInfo) string {
	key := x.ghostKey(name)
	if a, ok := st.heap[key]; ok {
		x.noteRead(key, a)
		return a
	}
	n := "G_" + symName(strings.TrimPrefix(name, "ghost_"))
	x.declare(n, ghostSort(hi))
	x.noteRead(key, n)
	return n
}

func (x *ctx) ghostRead(st *state, name string, callee *ssa.Function, args []val) val {
	if name == "ghost_iter" {
		if x.curIter.t.s == "" {
			x.fail("ghost_iter() used outside an invariant of a range-over-slice loop")
		}
		return x.curIter
	}
	hi := x.ghostInfo(name, callee.Signature)
	if c, ok := x.ghostConst[x.ghostKey(name)]; ok {
		return scalar(c)
	}
	if ak := x.alias[x.ghostKey(name)]; ak != "" && len(args) == 1 {
		r := x.readLeafHeap(st, &loc{base: args[0].t}, ak, hi.elem)
		x.assumeFieldInv(st, x.ghostKey(name), r)
		return scalar(r)
	}
	t := x.ghostArr(st, name, hi)
	for i, a := range args {
		t = fmt.Sprintf("(select %s %s)", t, x.asTerm(a, callee.Signature.Params().At(i).Type()).s)
	}
	r := term{t, hi.elem}
	x.assumeFieldInv(st, x.ghostKey(name), r)
	if hi.elem == sRef && isRefType(callee.Signature.Results().At(0).Type()) {
		x.noteAllocated(st, r)
	}
	return scalar(r)
}

func isRefType(t types.Type) bool {
	if _, ok := t.(*types.TypeParam); ok {
		return false
	}
	switch t.Underlying().(type) {
	case *types.Pointer, *types.Interface, *types.Map, *types.Slice, *types.Chan, *types.Signature:
		return true
	}
	return false
}

// assumeFieldInv assumes the global invariant of a ghost field for the value just read.
func (x *ctx) assumeFieldInv(st *state, key string, v term) {
	ref := x.w.fieldInv[key]
	if ref == nil || x.inInv {
		return
	}
	sp := x.w.ssaPkgs[ref.pkg]
	f := sp.Func(ref.fi.FnName)
	if f == nil {
		x.fail("field invariant function %s missing", ref.fi.FnName)
	}
	x.inInv = true
	g := x.evalSpecFn(st, f, nil, []val{scalar(v)})
	x.inInv = false
	st.define(g.t.s)
}

func (x *ctx) fieldInvGoal(st *state, key string, v term) (string, bool) {
	ref := x.w.fieldInv[key]
	if ref == nil {
		return "", false
	}
	f := x.w.ssaPkgs[ref.pkg].Func(ref.fi.FnName)
	x.inInv = true
	g := x.evalSpecFn(st, f, nil, []val{scalar(v)})
	x.inInv = false
	return g.t.s, true
}

// ghostWrite stores v at ghost[name](args).
func (x *ctx) ghostWrite(st *state, name string, args []term, v term) {
	key := x.ghostKey(name)
	if ak := x.alias[key]; ak != "" && len(args) == 1 {
		x.writeLeafHeap(st, &loc{base: args[0]}, ak, v)
		return
	}
	hi, ok := x.hinfo[key]
	if !ok {
		hi = heapInfo{elem: v.srt}
		for _, a := range args {
			hi.ksorts = append(hi.ksorts, a.srt)
		}
		x.hinfo[key] = hi
	}
	cur := x.ghostArr(st, name, hi)
	nt := nestedStore(cur, args, v.s)
	n := x.freshName("G_" + strings.TrimPrefix(name, "ghost_"))
	x.declare(n, ghostSort(hi))
	st.define(fmt.Sprintf("(= %s %s)", n, nt))
	st.heap[key] = n
	if len(args) == 1 {
		if x.lastStore == nil {
			x.lastStore = map[string][2]term{}
		}
		x.lastStore[n] = [2]term{args[0], v}
		x.lastStoreOf[v.s] = n
	}
}

func (x *ctx) ghostGet(st *state, name string, ks []srtT, elem srtT, args []term) term {
	key := x.ghostKey(name)
	if c, ok := x.ghostConst[key]; ok {
		return c
	}
	if ak := x.alias[key]; ak != "" && len(args) == 1 {
		return x.readLeafHeap(st, &loc{base: args[0]}, ak, elem)
	}
	hi, ok := x.hinfo[key]
	if !ok {
		hi = heapInfo{elem: elem, ksorts: ks}
		x.hinfo[key] = hi
	}
	t := x.ghostArr(st, name, hi)
	if len(args) == 1 {
		// store forwarding: reading the location that this array version was created by writing
		if ls, ok := x.lastStore[t]; ok && ls[0].s == args[0].s && ls[1].srt.name == hi.elem.name {
			return ls[1]
		}
	}
	for _, a := range args {
		t = fmt.Sprintf("(select %s %s)", t, a.s)
	}
	return term{t, hi.elem}
}

func nestedStore(arr string, idx []term, v string) string {
	if len(idx) == 0 {
		return v
	}
	if len(idx) == 1 {
		return fmt.Sprintf("(store %s %s %s)", arr, idx[0].s, v)
	}
	inner := nestedStore(fmt.Sprintf("(select %s %s)", arr, idx[0].s), idx[1:], v)
	return fmt.Sprintf("(store %s %s %s)", arr, idx[0].s, inner)
}

// ---------------------------------------------------------------- clause evaluation

// evalSpecFn runs a synthetic/spec function on a copy of st and merges the outcomes into one value.
func (x *ctx) evalSpecFn(st *state, fn *ssa.Function, bind []val, args []val) val {
	x.spec++
	defer func() { x.spec-- }()
	// memoisation: the same pure function on the same arguments, reading the same heap arrays, yields the same term
	memoKey := ""
	if fn.Parent() == nil && len(bind) == 0 {
		var b strings.Builder
		b.WriteString(fn.String())
		okKey := true
		for _, a := range args {
			var ts []term
			flattenPlain(a, &ts, &okKey)
			for _, t := range ts {
				b.WriteString("|" + t.s)
			}
		}
		if okKey {
			memoKey = b.String()
			for _, m := range x.memo[memoKey] {
				match := true
				for k, name := range m.reads {
					cur, ok := st.heap[k]
					if !ok {
						cur = x.initialName(k)
					}
					if cur != name {
						match = false
						break
					}
				}
				if match {
					for _, d := range m.defs {
						st.define(d)
					}
					x.noteReads(m.reads)
					return m.v
				}
			}
		}
	}
	x.readLog = append(x.readLog, map[string]string{})
	defer func() {
		top := x.readLog[len(x.readLog)-1]
		x.readLog = x.readLog[:len(x.readLog)-1]
		x.noteReads(top)
	}()
	pcBefore := len(st.pc)
	defer func() {
		_ = pcBefore
	}()
	s := st.clone()
	base := len(s.pc)
	fr := &frame{fn: fn, regs: map[ssa.Value]val{}, depth: 1}
	x.inMerge = true
	outs := x.inline(s, fr, fn, bind, args)
	var live []outcome
	for _, o := range outs {
		if !o.panic {
			live = append(live, o)
		}
	}
	if len(live) == 0 {
		debugf("spec %s: %d outcomes", fn, len(outs))
		x.fail("specification function %s has no normal outcome (%d outcomes)", fn, len(outs))
	}
	// merge: value = ite(pc1, v1, ite(pc2, v2, ... vn))
	branch := func(o outcome) string {
		var cs []string
		for _, f := range o.st.pc[base:] {
			if !f.def {
				cs = append(cs, f.t)
			}
		}
		return and(cs...)
	}
	// definitional facts created while evaluating the specification are kept (guarded by their branch)
	// (guarded by the path condition at the point where each was created; facts of a shared prefix are kept once)
	emitted := map[string]bool{}
	for _, o := range live {
		var cs []string
		guard := "true"
		for _, f := range o.st.pc[base:] {
			if !f.def {
				cs = append(cs, f.t)
				guard = ""
				continue
			}
			if guard == "" {
				guard = and(cs...)
			}
			key := guard + "|" + f.t
			if emitted[key] {
				continue
			}
			emitted[key] = true
			st.define(implies(guard, f.t))
		}
	}
	merged := live[len(live)-1].ret
	mcells := live[len(live)-1].st.cells
	for i := len(live) - 2; i >= 0; i-- {
		cond := branch(live[i])
		merged = x.mergeVal(cond, live[i].ret, merged)
		// cells allocated by the specification (closure captures)
		nc := map[int]val{}
		for id, v := range live[i].st.cells {
			if o, ok := mcells[id]; ok {
				if _, old := st.cells[id]; old {
					nc[id] = o
					continue
				}
				nc[id] = x.mergeVal(cond, v, o)
			} else {
				nc[id] = v
			}
		}
		for id, v := range mcells {
			if _, ok := nc[id]; !ok {
				nc[id] = v
			}
		}
		mcells = nc
	}
	// publish cells created by the specification into the caller's state so that closures can read them
	for id, v := range mcells {
		if _, old := st.cells[id]; !old {
			st.cells[id] = v
		}
	}
	// heap terms created in specification mode (ghost reads declare arrays) carry no state change
	if merged.t.s != "" {
		merged.t = x.named(st, merged.t)
	}
	if memoKey != "" && merged.fn == nil && merged.ptr == nil {
		var defs []string
		for _, f := range st.pc[pcBefore:] {
			if f.def {
				defs = append(defs, f.t)
			}
		}
		reads := map[string]string{}
		for k, v := range x.readLog[len(x.readLog)-1] {
			reads[k] = v
		}
		x.memo[memoKey] = append(x.memo[memoKey], memoEntry{v: merged, defs: defs, reads: reads})
	}
	return merged
}

func (x *ctx) mergeVal(cond string, a, b val) val {
	switch {
	case a.agg && b.agg:
		v := val{agg: true}
		for i := range a.fields {
			v.fields = append(v.fields, x.mergeVal(cond, a.fields[i], b.fields[i]))
		}
		return v
	case a.fn != nil || b.fn != nil:
		if a.fn != b.fn {
			x.fail("cannot merge different closures")
		}
		v := val{fn: a.fn}
		for i := range a.bind {
			v.bind = append(v.bind, x.mergeVal(cond, a.bind[i], b.bind[i]))
		}
		return v
	case a.ptr != nil || b.ptr != nil:
		return a
	}
	if a.t.s == "" || b.t.s == "" {
		return a
	}
	r := ite(cond, a.t, b.t)
	return scalar(r)
}

type memoEntry struct {
	v     val
	defs  []string
	reads map[string]string
}

// noteReads records heap reads in the innermost active read log.
func (x *ctx) noteReads(m map[string]string) {
	if len(x.readLog) == 0 {
		return
	}
	top := x.readLog[len(x.readLog)-1]
	for k, v := range m {
		if _, ok := top[k]; !ok {
			top[k] = v
		}
	}
}

func (x *ctx) noteRead(key, name string) {
	if len(x.readLog) == 0 {
		return
	}
	top := x.readLog[len(x.readLog)-1]
	if _, ok := top[key]; !ok {
		top[key] = name
	}
}

func flattenPlain(v val, out *[]term, ok *bool) {
	if v.agg {
		for _, f := range v.fields {
			flattenPlain(f, out, ok)
		}
		return
	}
	if v.t.s == "" {
		*ok = false
		return
	}
	*out = append(*out, v.t)
}

// named replaces a large term by a fresh constant defined equal to it.
func (x *ctx) named(st *state, t term) term {
	if len(t.s) < 240 || t.srt.name == "" {
		return t
	}
	n := x.freshTerm("t", t.srt)
	st.define(fmt.Sprintf("(= %s %s)", n.s, t.s))
	return n
}

// bindArgs builds the argument list of a synthetic function from values bound by name.
func (x *ctx) bindArgs(fn *ssa.Function, names []string, env func(name string, t types.Type) (val, bool)) []val {
	var out []val
	for i, p := range fn.Params {
		n := p.Name()
		if i < len(names) {
			n = names[i]
		}
		v, ok := env(n, p.Type())
		if !ok {
			sk, have := x.skolemOv[n]
			if !have {
				sk, have = x.skolem[n]
			}
			if !have {
				sk = x.freshVal("sk_"+n, p.Type())
				x.skolem[n] = sk
			}
			v = sk
		}
		out = append(out, v)
	}
	return out
}

func (x *ctx) synth(con *Contract, name string) *ssa.Function {
	pkg := x.w.ssaPkgs[con.PkgPath]
	if pkg == nil {
		x.fail("no SSA package %s", con.PkgPath)
	}
	f := pkg.Func(name)
	if f == nil {
		x.fail("synthetic clause function %s missing", name)
	}
	return f
}

type envFn func(name string, t types.Type) (val, bool)

// clauseL1 evaluates level 1 of a clause in state st.
func (x *ctx) clauseL1(st *state, con *Contract, cl *Clause, env envFn) val {
	f := x.synth(con, cl.FnName)
	return x.evalSpecFn(st, f, nil, x.bindArgs(f, cl.P1, env))
}

func (x *ctx) applyClosure(st *state, cv val, names []string, env envFn) val {
	if cv.fn == nil {
		x.fail("clause closure expected")
	}
	return x.evalSpecFn(st, cv.fn, cv.bind, x.bindArgs(cv.fn, names, env))
}

// evalEnsures evaluates a 4-level clause: entry state, linearization point (start and end of the critical section;
// the exit state when there was none), exit state.
func (x *ctx) evalEnsures(con *Contract, cl *Clause, pre, lp, lpend, post *state, env envFn, renv envFn) string {
	copyDefs := func(from *state, start int, to *state) {
		if from == to {
			return
		}
		for _, f := range from.pc[start:] {
			if f.def {
				to.define(f.t)
			}
		}
	}
	carry := func(from, to *state) {
		if from == to {
			return
		}
		for id, v := range from.cells {
			if _, ok := to.cells[id]; !ok {
				to.cells[id] = v
			}
		}
	}
	if lp == nil {
		lp = post
	}
	if lpend == nil {
		lpend = post
	}
	chain := []*state{pre, lp, lpend, post}
	n0 := len(pre.pc)
	cur := x.clauseL1(pre, con, cl, env)
	for i := 0; i < 3; i++ {
		from, to := chain[i], chain[i+1]
		start := n0
		carry(from, to)
		for _, later := range chain[i+1:] {
			carry(from, later)
			copyDefs(from, start, later)
		}
		n0 = len(to.pc)
		if i < 2 {
			cur = x.applyClosure(to, cur, nil, env)
		} else {
			cur = x.applyClosure(to, cur, cl.P3, renv)
		}
	}
	return cur.t.s
}

// ---------------------------------------------------------------- contracts at call sites

func (x *ctx) siteName(callee string) string {
	x.siteOrd[callee]++
	return fmt.Sprintf("%s#%d", callee, x.siteOrd[callee])
}

func shortTarget(t string) string {
	t = strings.NewReplacer("(", "", ")", "", "*", "").Replace(t)
	return t
}

func (x *ctx) contractCall(st *state, fr *frame, con *Contract, callee *ssa.Function, args []val, rt types.Type) []outcome {
	site := shortTarget(con.Target)
	env := func(name string, t types.Type) (val, bool) {
		for i, p := range con.Params {
			if p == name && i < len(args) {
				return args[i], true
			}
		}
		return val{}, false
	}
	if con.Flags["assumed"] {
		x.assumed["assumed contract: "+con.Key()] = true
	}
	// pure calls (no modifies, scalar result): the same call in the same heap yields the same result term
	pureKey := ""
	if len(con.Mods) == 0 && !con.Flags["fresh"] && !con.Flags["counted"] && !con.Flags["may-panic"] && rt != nil {
		okKey := true
		var b strings.Builder
		b.WriteString("call:" + con.Key())
		for _, a := range args {
			var ts []term
			flattenPlain(a, &ts, &okKey)
			for _, t := range ts {
				b.WriteString("|" + t.s)
			}
		}
		if okKey {
			pureKey = b.String()
			for _, m := range x.memo[pureKey] {
				match := true
				for k, name := range m.reads {
					cur, ok := st.heap[k]
					if !ok {
						cur = x.initialName(k)
					}
					if cur != name {
						match = false
						break
					}
				}
				if match && x.spec == 0 {
					// the preconditions are still checked at this call site; only the result term is shared
					for _, cl := range con.Requires {
						g := x.clauseL1(st, con, cl, env)
						x.oblige(st, "call-requires", cl.Tag(), site, g.t.s, "")
						st.assume(g.t.s)
					}
					for _, d := range m.defs {
						st.define(d)
					}
					return []outcome{{st: st, ret: m.v}}
				}
			}
			x.readLog = append(x.readLog, map[string]string{})
		}
	}
	// requires
	if x.spec == 0 && x.con != nil && len(x.con.CallsOnly) > 0 && con.Kind != "iface" {
		// calls-only: the functions under contract the verified function may call (directly or from inlined helpers)
		allowed := false
		for _, t := range x.con.CallsOnly {
			if t == con.Target {
				allowed = true
			}
		}
		if !allowed {
			x.oblige(st, "calls-only", strings.Join(x.con.CallsOnly, ","), site, "false", "call of "+con.Target)
		}
	}
	// a function that `delegates` to this callee inherits the callee's preconditions by definition
	inherits := x.con != nil && (x.con.Delegates == con.Target || x.inheriting > 0)
	for _, cl := range con.Requires {
		g := x.clauseL1(st, con, cl, env)
		if x.spec == 0 && !inherits {
			x.oblige(st, "call-requires", cl.Tag(), site, g.t.s, "")
		}
		st.assume(g.t.s)
	}
	pcStart := len(st.pc)
	// ghost log of calls of this function: number of calls and the scalar arguments of the last call. The log is
	// written again after the callee's footprint has been havocked: a (non-recursive) callee never calls itself, so
	// even `modifies *` leaves its own call log exactly one entry longer.
	writeCounted := func() {}
	if con.Flags["counted"] && x.spec == 0 {
		short := con.Obj.Name()
		cnt := x.ghostGet(st, "ghost_calls_"+short, nil, bvSort(64), nil)
		next := x.binop(token.ADD, cnt, mkbv(1, 64), types.Typ[types.Int])
		writeCounted = func() {
			x.ghostWrite(st, "ghost_calls_"+short, nil, next)
			for i, a := range args {
				if a.t.s != "" && i < len(con.Params) {
					x.ghostWrite(st, "ghost_last_"+short+"_"+con.Params[i], nil, a.t)
				}
			}
		}
		writeCounted()
	}
	pre := st.clone()
	if x.spec == 0 && (len(con.Cbs) > 0 || hasFuncParam(callee)) {
		x.callbackConformance(pre.clone(), fr, con, callee, args, env)
	}
	// level-1 closures are evaluated in the pre-state
	type pend struct {
		cl *Clause
		l1 val
	}
	var pends []pend
	npre := len(pre.pc)
	for _, cl := range con.Ensures {
		if cl.OnPanic {
			continue
		}
		pends = append(pends, pend{cl, x.clauseL1(pre, con, cl, env)})
	}
	for id, v := range pre.cells {
		if _, ok := st.cells[id]; !ok {
			st.cells[id] = v
		}
	}
	for _, f := range pre.pc[npre:] {
		if f.def {
			st.define(f.t)
		}
	}
	x.applyModifies(st, pre, con, con.Mods, env)
	writeCounted()
	var ret val
	if rt != nil {
		if tup, ok := rt.(*types.Tuple); ok && tup.Len() == 0 {
		} else {
			ret = x.freshVal("ret_"+site, rt)
		}
	}
	renv := func(name string, t types.Type) (val, bool) {
		for i, r := range con.Results {
			if r == name {
				if len(con.Results) == 1 {
					return ret, true
				}
				if ret.agg && i < len(ret.fields) {
					return ret.fields[i], true
				}
			}
		}
		return env(name, t)
	}
	// lp(...) / lpend(...) in the callee's postconditions denote instants inside the call: they are evaluated in
	// independent unknown intermediate states (the callee's footprint havocked again), never in the post-call state
	retSub := ""
	var mid1, mid2 *state
	midState := func() *state {
		m := st.clone()
		x.applyModifies(m, pre, con, con.Mods, env)
		return m
	}
	copyBack := func(m *state, n0 int) {
		for _, f := range m.pc[n0:] {
			if f.def {
				st.define(f.t)
			}
		}
		for id, v := range m.cells {
			if _, ok := st.cells[id]; !ok {
				st.cells[id] = v
			}
		}
	}
	for _, p := range pends {
		usesLp := strings.Contains(p.cl.Expr, "lp(") || strings.Contains(p.cl.Expr, "lpend(")
		if !usesLp {
			l2 := x.applyClosure(st, p.l1, nil, env)
			l3 := x.applyClosure(st, l2, nil, env)
			r := x.applyClosure(st, l3, p.cl.P3, renv)
			if r.t.s == "false" {
				x.fail("postcondition [%s] of %s evaluates to false at a call site in %s: the call could never return (contract or engine error)", p.cl.Tag(), con.Target, x.con.Target)
			}
			if x.spec > 0 {
				st.define(r.t.s) // inside a specification the callee is pure: its ensures only describe the fresh result
			} else {
				st.assume(r.t.s)
			}
			if a, b, ok := splitEq(r.t.s); ok {
				// an ensures that pins the fresh result (`result == E`) or a freshly havocked location (`ghost_f(x) == v`)
				// to a term: later reads use that term directly (same meaning, decidable by the syntactic pruning)
				if ret.t.s != "" && !ret.agg {
					if a == ret.t.s && !strings.Contains(b, ret.t.s) {
						retSub = b
					} else if b == ret.t.s && !strings.Contains(a, ret.t.s) {
						retSub = a
					}
				}
				for _, pr := range [][2]string{{a, b}, {b, a}} {
					if ver, isFresh := x.lastStoreOf[pr[0]]; isFresh && strings.HasPrefix(pr[0], "mod_") && !strings.Contains(pr[1], pr[0]) {
						if ls, have := x.lastStore[ver]; have && ls[1].s == pr[0] {
							x.lastStore[ver] = [2]term{ls[0], {pr[1], ls[1].srt}}
						}
					}
				}
			}
			continue
		}
		if mid1 == nil {
			mid1, mid2 = midState(), midState()
		}
		for id, v := range st.cells {
			if _, ok := mid1.cells[id]; !ok {
				mid1.cells[id] = v
			}
		}
		n1 := len(mid1.pc)
		l2 := x.applyClosure(mid1, p.l1, nil, env)
		copyBack(mid1, n1)
		for id, v := range mid1.cells {
			if _, ok := mid2.cells[id]; !ok {
				mid2.cells[id] = v
			}
		}
		n2 := len(mid2.pc)
		l3 := x.applyClosure(mid2, l2, nil, env)
		copyBack(mid2, n2)
		r := x.applyClosure(st, l3, p.cl.P3, renv)
		if x.spec > 0 {
			st.define(r.t.s) // inside a specification the callee is pure: its ensures only describe the fresh result
		} else {
			st.assume(r.t.s)
		}
	}
	if retSub != "" && ret.t.s != "" {
		ret.t = term{retSub, ret.t.srt}
	}
	// postconditions over the callee's skolem variables hold for every value of them: besides the shared skolem
	// constant they are instantiated at the parameters of the function under verification that have the same type
	if x.spec == 0 && len(con.Vars) > 0 && x.fn != nil {
		for _, p := range pends {
			if strings.Contains(p.cl.Expr, "lp(") || strings.Contains(p.cl.Expr, "lpend(") {
				continue
			}
			vars := skolemVarsOf(con, p.cl.Expr)
			if len(vars) == 0 {
				continue
			}
			cf := x.synth(con, p.cl.FnName)
			for _, v := range vars {
				var vt types.Type
				for i, pn := range p.cl.P1 {
					if pn == v && i < len(cf.Params) {
						vt = cf.Params[i].Type()
					}
				}
				if vt == nil {
					continue
				}
				for _, fp := range x.fn.Params {
					pv, ok := fr.regs[fp]
					if !ok || fr.fn != x.fn {
						pv, ok = x.params[fp.Name()]
					}
					if !ok || pv.t.s == "" || types.TypeString(fp.Type(), nil) != types.TypeString(vt, nil) {
						continue
					}
					save := x.skolemOv
					x.skolemOv = map[string]val{v: pv}
					pc := pre.clone()
					n0 := len(pc.pc)
					l1 := x.clauseL1(pc, con, p.cl, env)
					for _, f := range pc.pc[n0:] {
						if f.def {
							st.define(f.t)
						}
					}
					for id, cv := range pc.cells {
						if _, have := st.cells[id]; !have {
							st.cells[id] = cv
						}
					}
					l2 := x.applyClosure(st, l1, nil, env)
					l3 := x.applyClosure(st, l2, nil, env)
					r := x.applyClosure(st, l3, p.cl.P3, renv)
					x.skolemOv = save
					st.assume(r.t.s)
				}
			}
		}
	}
	for name, spec := range con.Cbs {
		if strings.HasPrefix(name, "result:") {
			ret.iter = &iterRef{con: con, spec: spec, args: args}
		}
	}
	if x.spec == 0 && len(con.Cbs) > 0 {
		if evalI := x.cbInvariant(con); evalI != nil {
			st.assume(evalI(st)) // established by the callback-invariant obligations of this call site
		}
	}
	if con.Flags["counted"] && x.spec == 0 {
		// results of the last call
		short := con.Obj.Name()
		for i, rn := range con.Results {
			rv := ret
			if len(con.Results) > 1 && ret.agg && i < len(ret.fields) {
				rv = ret.fields[i]
			}
			if rv.t.s != "" {
				x.ghostWrite(st, "ghost_last_"+short+"_"+rn, nil, rv.t)
			}
		}
	}
	if con.Flags["fresh"] && ret.t.s != "" && ret.t.srt == sRef {
		// freshly allocated result: differs from every reference visible in the caller
		x.assumeFreshRef(st, ret.t)
		seenT := map[string]bool{}
		for _, v := range fr.regs {
			if v.t.s != "" && v.t.srt == sRef && !seenT[v.t.s] && v.t.s != ret.t.s {
				seenT[v.t.s] = true
				st.define(not(eq(ret.t, v.t)))
			}
		}
	}
	if pureKey != "" {
		reads := x.readLog[len(x.readLog)-1]
		x.readLog = x.readLog[:len(x.readLog)-1]
		x.noteReads(reads)
		if x.spec == 0 {
			var defs []string
			for _, f := range st.pc[pcStart:] {
				defs = append(defs, f.t)
			}
			x.memo[pureKey] = append(x.memo[pureKey], memoEntry{v: ret, defs: defs, reads: reads})
		}
	}
	if x.spec == 0 {
		st.dcalls = append(st.dcalls, callRec{iface: con.Kind == "iface", target: con.Target, args: args, ret: ret})
	}
	outs := []outcome{{st: st, ret: ret}}
	if con.Flags["may-panic"] {
		ps := st.clone()
		outs = append(outs, outcome{st: ps, panic: true})
	}
	return outs
}

// applyModifies havocs the locations named by the items (evaluated in pre).
func (x *ctx) applyModifies(st, pre *state, con *Contract, mods []*ModItem, env envFn) {
	for _, mi := range mods {
		switch mi.Kind {
		case "whole":
			if mi.Type == "*" || mi.Field == "*" {
				x.havocAllFor(st, mi.Type, con)
				continue
			}
			key := mi.Type + "." + mi.Field
			if mi.Type == "node" {
				key = "G:" + mi.Field
			}
			x.havocKey(st, key)
		case "wholekey":
			x.havocKey(st, mi.Field)
		case "ghostall":
			x.havocKey(st, x.ghostKey(mi.Ghost))
			x.havocTableLogs(st, mi.Ghost)
		case "ghost":
			x.havocTableLogs(st, mi.Ghost)
			if strings.HasPrefix(mi.Ghost, "ghost_calls_") {
				// the argument / result log of the same callback changes with its call counter
				short := strings.TrimPrefix(mi.Ghost, "ghost_calls_")
				var ks []string
				for k := range x.hinfo {
					if strings.HasPrefix(k, "G:arg_"+short+"_") || k == "G:ret_"+short || strings.HasPrefix(k, "G:ret_"+short+"_") || strings.HasPrefix(k, "G:last_"+short+"_") {
						ks = append(ks, k)
					}
				}
				sort.Strings(ks)
				for _, k := range ks {
					x.havocKey(st, k)
				}
			}
			var idx []term
			for _, fnm := range mi.ArgFns {
				f := x.synth(con, fnm)
				v := x.evalSpecFn(pre, f, nil, x.bindArgs(f, nil, env))
				idx = append(idx, v.t)
			}
			key := x.ghostKey(mi.Ghost)
			hi, ok := x.hinfo[key]
			if !ok {
				// resolve through the stub's signature
				stub := x.w.findStub(mi.Ghost)
				if stub == nil {
					x.fail("unknown ghost %s in modifies", mi.Ghost)
				}
				hi = x.ghostInfo(mi.Ghost, stub.Signature)
			}
			x.ghostWrite(st, mi.Ghost, idx, x.freshTerm("mod_"+mi.Ghost, hi.elem))
		case "allmaps":
			var ks []string
			for k := range x.hinfo {
				if strings.HasPrefix(k, "G:mapP_") || strings.HasPrefix(k, "G:mapV_") || k == "G:mapN" {
					ks = append(ks, k)
				}
			}
			sort.Strings(ks)
			// maps created by the function under verification that are not among the arguments of this call are out
			// of the callee's reach (they live in local variables only): their rows are kept
			argTerms := map[string]bool{}
			for _, pn := range con.Params {
				if v, ok := env(pn, nil); ok && v.t.s != "" {
					argTerms[v.t.s] = true
				}
			}
			for _, k := range ks {
				old, had := st.heap[k]
				if !had {
					old = x.initialName(k)
				}
				x.havocKey(st, k)
				if cur, ok := st.heap[k]; ok && cur != old && x.seen[old] {
					for _, a := range x.allocated {
						if !argTerms[a.s] {
							st.define(fmt.Sprintf("(= (select %s %s) (select %s %s))", cur, a.s, old, a.s))
						}
					}
				}
			}
		case "mapof":
			f := x.synth(con, mi.ArgFns[0])
			base := x.evalSpecFn(pre, f, nil, x.bindArgs(f, nil, env))
			x.havocMap(st, base.t)
		case "field":
			f := x.synth(con, mi.ArgFns[0])
			base := x.evalSpecFn(pre, f, nil, x.bindArgs(f, nil, env))
			bt := x.modBaseType(f)
			x.havocField(st, base, bt, mi.Field)
		case "elems":
			f := x.synth(con, mi.ArgFns[0])
			base := x.evalSpecFn(pre, f, nil, x.bindArgs(f, nil, env))
			bt := x.modBaseType(f)
			sl, ok := bt.Underlying().(*types.Slice)
			if !ok {
				x.fail("modifies %s: not a slice", mi.Raw)
			}
			es, leaf := x.leafSort(sl.Elem())
			if !leaf {
				x.fail("modifies %s: aggregate elements", mi.Raw)
			}
			key := x.elemKey(sl.Elem())
			a := x.arr(st, key, true, es)
			fe := x.freshName("elems")
			x.declare(fe, fmt.Sprintf("(Array (_ BitVec 64) %s)", es.name))
			x.setArr(st, key, fmt.Sprintf("(store %s %s %s)", a, base.t.s, fe))
		case "elem":
			f := x.synth(con, mi.ArgFns[0])
			base := x.evalSpecFn(pre, f, nil, x.bindArgs(f, nil, env))
			f2 := x.synth(con, mi.ArgFns[1])
			ix := x.evalSpecFn(pre, f2, nil, x.bindArgs(f2, nil, env))
			bt := x.modBaseType(f)
			sl := bt.Underlying().(*types.Slice)
			es, _ := x.leafSort(sl.Elem())
			key := x.elemKey(sl.Elem())
			ixt := ix.t
			x.writeLeafHeap(st, &loc{base: base.t, idx: &ixt}, key, x.freshTerm("mod_elem", es))
		}
	}
}

// modBaseType finds the static type of the expression returned by a Zmod function.
func (x *ctx) modBaseType(f *ssa.Function) types.Type {
	for _, b := range f.Blocks {
		for _, in := range b.Instrs {
			if r, ok := in.(*ssa.Return); ok && len(r.Results) == 1 {
				switch v := r.Results[0].(type) {
				case *ssa.MakeInterface:
					return v.X.Type()
				case *ssa.ChangeInterface:
					return v.X.Type()
				default:
					return v.Type()
				}
			}
		}
	}
	x.fail("cannot determine base type in %s", f)
	return nil
}

func (x *ctx) isNodeIface(t types.Type) bool {
	n, ok := t.(*types.Named)
	if !ok {
		return false
	}
	_, isI := n.Underlying().(*types.Interface)
	return isI && n.Obj().Name() == "Node" && n.Obj().Pkg() != nil && strings.HasSuffix(n.Obj().Pkg().Path(), "internal/generated/node")
}

func (x *ctx) havocField(st *state, base val, bt types.Type, field string) {
	if x.isNodeIface(bt) {
		key := "G:" + field
		hi, ok := x.hinfo[x.akey(key)]
		if !ok {
			stub := x.w.findStub("ghost_" + field)
			if stub == nil {
				x.fail("unknown abstract node field %s", field)
			}
			hi = x.ghostInfo("ghost_"+field, stub.Signature)
		}
		if x.alias[key] != "" {
			// conformance mode: the abstract field is the concrete field
			l := &loc{base: base.t}
			x.writeLeafHeap(st, l, x.alias[key], x.freshTerm("mod_"+field, hi.elem))
			return
		}
		x.ghostWrite(st, "ghost_"+field, []term{base.t}, x.freshTerm("mod_"+field, hi.elem))
		return
	}
	stT, ok := deref(bt).Underlying().(*types.Struct)
	if !ok {
		x.fail("modifies .%s: base is not a struct pointer (%s)", field, bt)
	}
	for i := 0; i < stT.NumFields(); i++ {
		if stT.Field(i).Name() == field {
			key := structName(deref(bt)) + "." + field
			l := &loc{base: base.t, key: key, typ: stT.Field(i).Type()}
			x.writeHeap(st, l, key, stT.Field(i).Type(), x.freshVal("mod_"+field, stT.Field(i).Type()))
			return
		}
	}
	x.fail("modifies: no field %s in %s", field, bt)
}

// havocRow replaces the row of base in the (ref-indexed) array of key by a fresh one.
func (x *ctx) havocRow(st *state, key string, hi heapInfo, base string) {
	key = x.akey(key)
	var cur, full, rowSort string
	switch {
	case strings.HasPrefix(key, "G:"):
		if len(hi.ksorts) == 0 || hi.ksorts[0] != sRef {
			x.havocKey(st, key)
			return
		}
		cur = x.ghostArr(st, "ghost_"+strings.TrimPrefix(key, "G:"), hi)
		full = ghostSort(hi)
		rowSort = ghostSort(heapInfo{ksorts: hi.ksorts[1:], elem: hi.elem})
	case hi.indexed:
		cur = x.arr(st, key, true, hi.elem)
		full = fmt.Sprintf("(Array (_ BitVec 64) (Array (_ BitVec 64) %s))", hi.elem.name)
		rowSort = fmt.Sprintf("(Array (_ BitVec 64) %s)", hi.elem.name)
	default:
		cur = x.arr(st, key, false, hi.elem)
		full = fmt.Sprintf("(Array (_ BitVec 64) %s)", hi.elem.name)
		rowSort = hi.elem.name
	}
	row := x.freshName("row_" + key)
	x.declare(row, rowSort)
	n := x.freshName("H_" + key + "_rv")
	x.declare(n, full)
	st.define(fmt.Sprintf("(= %s (store %s %s %s))", n, cur, base, row))
	st.heap[key] = n
}

// havocTableLogs: a callee that may access a table also changes the log of the last atomic access to it.
func (x *ctx) havocTableLogs(st *state, ghost string) {
	var pfx string
	switch ghost {
	case "ghost_tbl":
		pfx = "G:lp"
	case "ghost_calls":
		pfx = "G:clp"
	default:
		return
	}
	for _, suf := range []string{"Cur", "New", "Count"} {
		x.havocKey(st, pfx+suf)
	}
}

// havocMap havocs the contents (presence, values, cardinality) of the Go map at reference m only.
func (x *ctx) havocMap(st *state, m term) {
	var keys []string
	for k := range x.hinfo {
		if strings.HasPrefix(k, "G:mapP_") || strings.HasPrefix(k, "G:mapV_") || k == "G:mapN" {
			keys = append(keys, k)
		}
	}
	sort.Strings(keys)
	for _, k := range keys {
		hi := x.hinfo[k]
		name := "ghost_" + strings.TrimPrefix(k, "G:")
		cur := x.ghostArr(st, name, hi)
		var inner string
		if len(hi.ksorts) == 2 {
			inner = x.freshName("maprow")
			x.declare(inner, fmt.Sprintf("(Array %s %s)", hi.ksorts[1].name, hi.elem.name))
		} else {
			inner = x.freshName("mapcard")
			x.declare(inner, hi.elem.name)
			if k == "G:mapN" {
				st.define(fmt.Sprintf("(bvsge %s %s)", inner, bvlit(0, 64)))
			}
		}
		n := x.freshName("G_" + strings.TrimPrefix(k, "G:"))
		x.declare(n, ghostSort(hi))
		st.define(fmt.Sprintf("(= %s (store %s %s %s))", n, cur, m.s, inner))
		st.heap[k] = n
	}
}

// logOfUnreachable: k is the call log (ghost_calls_N / ghost_last_N_*) of a `counted` function under contract that the
// callee con cannot reach (statically, through calls, closures, function values and interface methods by name): a
// `modifies *` of con leaves such a log alone.
func (x *ctx) logOfUnreachable(con *Contract, k string) bool {
	if con == nil || !strings.HasPrefix(k, "G:") {
		return false
	}
	name := ""
	switch {
	case strings.HasPrefix(k, "G:calls_"):
		name = strings.TrimPrefix(k, "G:calls_")
	case strings.HasPrefix(k, "G:last_"):
		name = strings.TrimPrefix(k, "G:last_")
		if j := strings.Index(name, "_"); j > 0 {
			name = name[:j]
		}
	default:
		return false
	}
	if !x.w.countedName(name) {
		return false
	}
	return !x.w.reachableNames(con)[name]
}

func (x *ctx) havocAll(st *state, typ string) {
	x.havocAllFor(st, typ, nil)
}

func (x *ctx) havocAllFor(st *state, typ string, callee *Contract) {
	var keys []string
	for k := range x.hinfo {
		keys = append(keys, k)
	}
	sort.Strings(keys)
	for _, k := range keys {
		if typ == "*" || strings.HasPrefix(k, typ+".") || (typ == "node" && strings.HasPrefix(k, "G:")) {
			if x.w.immutable[k] || k == "Len" {
				continue
			}
			if typ == "*" && callee != nil && x.logOfUnreachable(callee, k) {
				continue
			}
			hi := x.hinfo[k]
			old, had := st.heap[k]
			if !had {
				old = x.initialName(k)
			}
			if os.Getenv("GOVC_TRACE_HAVOC") == k {
				debugf("havocAll typ=%s key=%s", typ, k)
			}
			x.havocKey(st, k)
			// objects allocated by the function under verification and never handed out keep their fields
			if typ == "*" && !strings.HasPrefix(k, "G:") && !hi.indexed && k != "Len" && len(x.allocated) > 0 {
				if cur, ok := st.heap[k]; ok && x.seen[old] {
					for _, a := range x.allocated {
						st.define(fmt.Sprintf("(= (select %s %s) (select %s %s))", cur, a.s, old, a.s))
					}
				}
			}
		}
	}
}

// ---------------------------------------------------------------- callbacks

func (x *ctx) callbackCall(st *state, fr *frame, cb *cbRef, args []val, rt types.Type) []outcome {
	con, spec := cb.con, cb.spec
	site := "cb:" + spec.Name
	// callback parameter names come after the enclosing function's parameters
	env := func(name string, t types.Type) (val, bool) {
		if v, ok := x.params[name]; ok {
			return v, true
		}
		return val{}, false
	}
	cenv := func(cl *Clause) envFn {
		return func(name string, t types.Type) (val, bool) {
			// parameters of the callback are the trailing names of P1
			np := len(cl.P1) - len(args)
			for i := np; i < len(cl.P1); i++ {
				if cl.P1[i] == name && i-np < len(args) {
					return args[i-np], true
				}
			}
			return env(name, t)
		}
	}
	for _, cl := range spec.Requires {
		var g val
		if cl.Levels == 2 {
			pc := x.pre.clone()
			np := len(pc.pc)
			l1 := x.clauseL1(pc, con, cl, env)
			for id, v := range pc.cells {
				if _, ok := st.cells[id]; !ok {
					st.cells[id] = v
				}
			}
			for _, f := range pc.pc[np:] {
				if f.def {
					st.define(f.t)
				}
			}
			g = x.applyClosure(st, l1, cl.P3, func(name string, t types.Type) (val, bool) {
				for i, pn := range cl.P3 {
					if pn == name && i < len(args) {
						return args[i], true
					}
				}
				return env(name, t)
			})
		} else {
			g = x.clauseL1(st, con, cl, cenv(cl))
		}
		x.oblige(st, "callback-requires", cl.Tag(), site, g.t.s, "")
		st.assume(g.t.s)
	}
	if x.spec == 0 {
		// ghost log: number of invocations of this callback
		short := strings.TrimPrefix(spec.Name, "result:")
		cnt := x.ghostGet(st, "ghost_calls_"+short, nil, bvSort(64), nil)
		x.ghostWrite(st, "ghost_calls_"+short, nil, x.binop(token.ADD, cnt, mkbv(1, 64), types.Typ[types.Int]))
	}
	pre := st.clone()
	type pend struct {
		cl *Clause
		l1 val
	}
	var pends []pend
	npre := len(pre.pc)
	for _, cl := range spec.Ensures {
		pends = append(pends, pend{cl, x.clauseL1(pre, con, cl, cenv(cl))})
	}
	for id, v := range pre.cells {
		if _, ok := st.cells[id]; !ok {
			st.cells[id] = v
		}
	}
	for _, f := range pre.pc[npre:] {
		if f.def {
			st.define(f.t)
		}
	}
	menv := func(name string, t types.Type) (val, bool) {
		// modifies functions: enclosing params then callback params, bound by name
		if v, ok := x.params[name]; ok {
			return v, true
		}
		return val{}, false
	}
	_ = menv
	if len(spec.Mods) > 0 {
		// bind callback parameters by position after the enclosing parameters
		f0 := (*ssa.Function)(nil)
		for _, mi := range spec.Mods {
			if len(mi.ArgFns) > 0 {
				f0 = x.synth(con, mi.ArgFns[0])
				break
			}
		}
		penv := func(name string, t types.Type) (val, bool) {
			if f0 != nil {
				np := len(f0.Params) - len(args)
				for i := np; i < len(f0.Params); i++ {
					if f0.Params[i].Name() == name {
						return args[i-np], true
					}
				}
			}
			return env(name, t)
		}
		x.applyModifies(st, pre, con, spec.Mods, penv)
	}
	var ret val
	if rt != nil {
		if tup, ok := rt.(*types.Tuple); !ok || tup.Len() > 0 {
			ret = x.freshVal("cbret_"+spec.Name, rt)
		}
	}
	for _, p := range pends {
		l2 := x.applyClosure(st, p.l1, nil, cenv(p.cl))
		l2 = x.applyClosure(st, l2, nil, cenv(p.cl))
		r := x.applyClosure(st, l2, p.cl.P3, func(name string, t types.Type) (val, bool) {
			if name == "cbr0" {
				return ret, true
			}
			return cenv(p.cl)(name, t)
		})
		st.assume(r.t.s)
	}
	if x.spec == 0 {
		// the same result / argument log as for user callbacks (ghost_ret_<name>[_i], ghost_arg_<name>_i)
		short := strings.TrimPrefix(spec.Name, "result:")
		if ret.t.s != "" {
			x.ghostWrite(st, "ghost_ret_"+short, nil, ret.t)
		} else if ret.agg && len(ret.fields) <= 4 {
			for i, f := range ret.fields {
				if f.t.s != "" {
					x.ghostWrite(st, fmt.Sprintf("ghost_ret_%s_%d", short, i), nil, f.t)
				}
			}
		}
		var leaves []term
		okL := true
		for _, a := range args {
			flattenPlain(a, &leaves, &okL)
		}
		if okL && len(leaves) <= 8 {
			for i, l := range leaves {
				x.ghostWrite(st, fmt.Sprintf("ghost_arg_%s_%d", short, i), nil, l)
			}
		}
	}
	outs := []outcome{{st: st, ret: ret}}
	if x.spec == 0 && x.con != nil && x.con.Flags["panics"] && !strings.HasPrefix(spec.Name, "result:") && len(spec.Ensures) == 0 && len(spec.Requires) == 0 {
		// a callback that stands for user code (only a footprint is declared for it) may panic like any user callback
		ps := st.clone()
		ps.sig = append(ps.sig, "panic:cb:"+spec.Name)
		outs = append(outs, outcome{st: ps, panic: true})
	}
	return outs
}

// ---------------------------------------------------------------- loops

func (x *ctx) loopEntry(st *state, fr *frame, b *ssa.BasicBlock, prev *ssa.BasicBlock) (stop, skipPhis bool) {
	back := b.Dominates(prev)
	ord := loopOrdinal(b)
	var ls *LoopSpec
	lcon := fr.con
	if fr.con != nil {
		ls = fr.con.Loops[ord]
	} else if x.spec == 0 && x.con != nil && fr.fn.Parent() != nil {
		// a loop inside a closure of the function under verification: `loop <closure>:<n>: ...`
		if cl := x.con.ClosureLoops[fr.fn.Name()+":"+fmt.Sprint(ord)]; cl != nil {
			ls, lcon = cl, x.con
		}
	}
	if x.spec > 0 || lcon == nil || (ls != nil && ls.Unroll > 0) || (ls == nil && !fr.top) {
		// unrolling: specification functions and loops declared `unroll N`
		limit := 80
		if ls != nil && ls.Unroll > 0 {
			limit = ls.Unroll + 1
		} else if x.spec == 0 {
			limit = 12
		}
		if fr.visits == nil {
			fr.visits = map[*ssa.BasicBlock]int{}
		}
		fr.visits[b]++
		if fr.visits[b] > limit {
			if x.spec == 0 {
				x.oblige(st, "unroll-bound", "", fmt.Sprintf("loop %d", ord), "false", "loop iterates more often than its declared unroll bound")
			}
			return true, false
		}
		return false, false
	}
	if ls == nil || len(ls.Invariants) == 0 {
		x.fail("loop %d of %s has neither an invariant nor an unroll bound", ord, fr.fn)
	}
	site := fmt.Sprintf("loop %d", ord)
	phiEnv := func(fresh bool) envFn {
		return func(name string, t types.Type) (val, bool) {
			for _, in := range b.Instrs {
				ph, ok := in.(*ssa.Phi)
				if !ok {
					break
				}
				if ph.Comment == name {
					if fresh {
						return fr.regs[ph], true
					}
					for pi, p := range b.Preds {
						if p == prev {
							return x.get(fr, st, ph.Edges[pi]), true
						}
					}
				}
			}
			// the key variable of a `for i := range s` loop: at the loop head it stands for the number of completed
			// iterations, exactly like the counter of `for i := 0; i < len(s); i++` (rangeindex + 1)
			if ph := rangeKeyPhi(fr.fn, b, name); ph != nil {
				var pv val
				if fresh {
					pv = fr.regs[ph]
				} else {
					for pi, p := range b.Preds {
						if p == prev {
							pv = x.get(fr, st, ph.Edges[pi])
						}
					}
				}
				if pv.t.s != "" {
					return scalar(x.binop(token.ADD, pv.t, mkbv(1, 64), types.Typ[types.Int])), true
				}
			}
			return x.localByName(st, fr, b, name)
		}
	}
	penv := func(name string, t types.Type) (val, bool) { v, ok := x.params[name]; return v, ok }
	evalInv := func(s *state, cl *Clause, fresh bool) string {
		// ghost_iter(): the number of completed iterations of a range-over-slice loop (rangeindex + 1)
		x.curIter = val{}
		for _, in := range b.Instrs {
			if ph, ok := in.(*ssa.Phi); ok && ph.Comment == "rangeindex" {
				var pv val
				if fresh {
					pv = fr.regs[ph]
				} else {
					for pi, p := range b.Preds {
						if p == prev {
							pv = x.get(fr, st, ph.Edges[pi])
						}
					}
				}
				if pv.t.s != "" {
					x.curIter = scalar(x.binop(token.ADD, pv.t, mkbv(1, 64), types.Typ[types.Int]))
				}
			}
		}
		defer func() { x.curIter = val{} }()
		pc := x.pre.clone()
		np := len(pc.pc)
		l1 := x.clauseL1(pc, lcon, cl, penv)
		for id, v := range pc.cells {
			if _, ok := s.cells[id]; !ok {
				s.cells[id] = v
			}
		}
		for _, f := range pc.pc[np:] {
			if f.def {
				s.define(f.t)
			}
		}
		if cl.Levels == 3 {
			// entry(...): the middle level is applied once, in the state in which the loop is entered
			if fr.loopEntry == nil {
				fr.loopEntry = map[string]val{}
			}
			key := fmt.Sprintf("%p|%s", b, cl.FnName)
			l2, have := fr.loopEntry[key]
			if !have {
				if back {
					x.fail("entry(...) of loop %d in %s: back edge reached without an entry snapshot", ord, fr.fn)
				}
				l2 = x.applyClosure(s, l1, cl.P3, phiEnv(false))
				fr.loopEntry[key] = l2
			}
			return x.applyClosure(s, l2, cl.P3, phiEnv(fresh)).t.s
		}
		return x.applyClosure(s, l1, cl.P3, phiEnv(fresh)).t.s
	}
	kind := "inv-entry"
	if back {
		kind = "inv-preserved"
	}
	for _, cl := range ls.Invariants {
		if cl.Assumed {
			x.assumed[fmt.Sprintf("assumed loop fact in %s, %s [%s]: %s", lcon.Target, site, cl.Tag(), cl.Expr)] = true
			continue
		}
		x.oblige(st, kind, cl.Tag(), site, evalInv(st, cl, false), "")
	}
	if back {
		return true, false
	}
	// havoc loop-carried variables and everything the loop body may write
	for _, in := range b.Instrs {
		if ph, ok := in.(*ssa.Phi); ok {
			fr.regs[ph] = x.freshVal("loop_"+ph.Comment, ph.Type())
			x.typeTag(st, fr.regs[ph].t, ph.Type())
			if fr.regs[ph].t.s != "" && isRefType(ph.Type()) {
				x.noteAllocated(st, fr.regs[ph].t)
				if localMapValue(ph, map[ssa.Value]bool{}) {
					x.markLocal(st, fr.regs[ph].t)
				}
			}
		}
	}
	x.havocLoop(st, fr, b)
	for _, in := range b.Instrs {
		if ph, ok := in.(*ssa.Phi); ok && ph.Comment == "rangeindex" {
			// compiler-generated index of a range over a slice: starts at -1 and only increases below len
			st.define(x.binop(token.GEQ, fr.regs[ph].t, mkbv(^uint64(0), 64), types.Typ[types.Int]).s)
			st.define(not(eq(fr.regs[ph].t, mkbv(uint64(1)<<63-1, 64))))
		}
	}
	for _, cl := range ls.Invariants {
		st.assume(evalInv(st, cl, true))
	}
	// iter(E) in site assertions: the state at the start of the current iteration
	if fr.top || (fr.fn.Parent() != nil && closureOf(fr.fn, x.fn)) {
		snapIter := st.clone()
		delete(snapIter.snaps, "iter")
		st.snaps["iter"] = snapIter
	}
	// invariants over skolem variables hold for every value of them: kept for lazy instantiation at range keys
	var snap *state
	for _, cl := range ls.Invariants {
		vars := skolemVarsOf(lcon, cl.Expr)
		if len(vars) == 0 || cl.Levels == 3 {
			continue
		}
		if snap == nil {
			snap = st.clone()
		}
		capt := map[string]val{}
		fe := phiEnv(true)
		for _, n := range cl.P3 {
			if v, ok := fe(n, nil); ok {
				capt[n] = v
			}
		}
		cl, snap := cl, snap
		st.univ = append(st.univ, &univFact{id: fmt.Sprintf("inv:%s:%d:%s:%d", fr.fn.Name(), ord, cl.Tag(), len(st.pc)), vars: vars, eval: func(cur *state) string {
			s := snap.clone()
			n0 := len(s.pc)
			pc := x.pre.clone()
			np := len(pc.pc)
			l1 := x.clauseL1(pc, lcon, cl, penv)
			for id, v := range pc.cells {
				if _, ok := s.cells[id]; !ok {
					s.cells[id] = v
				}
			}
			for _, f := range pc.pc[np:] {
				if f.def {
					s.define(f.t)
				}
			}
			t := x.applyClosure(s, l1, cl.P3, func(name string, tt types.Type) (val, bool) { v, ok := capt[name]; return v, ok }).t.s
			for _, f := range s.pc[n0:] {
				if f.def {
					cur.define(f.t)
				}
			}
			for id, v := range s.cells {
				if _, ok := cur.cells[id]; !ok {
					cur.cells[id] = v
				}
			}
			return t
		}})
	}
	return false, true
}

// skolemVarsOf lists the skolem variables (`var name T` of the contract) that occur in a clause.
func skolemVarsOf(con *Contract, expr string) []string {
	var out []string
	for _, v := range con.Vars {
		if wordIn(expr, v.Name) {
			out = append(out, v.Name)
		}
	}
	return out
}

func wordIn(s, w string) bool {
	for i := 0; i+len(w) <= len(s); i++ {
		if s[i:i+len(w)] == w && (i == 0 || !isIdentByte(s[i-1])) && (i+len(w) == len(s) || !isIdentByte(s[i+len(w)])) {
			return true
		}
	}
	return false
}

// instantiateUniv assumes, for a new term k (a key produced by a range over a map), the instances at k of every
// universally valid fact over a skolem variable of k's sort: the preconditions of the function under verification and
// the loop invariants assumed so far on this path.
func (x *ctx) instantiateUniv(st *state, k term) {
	if x.spec > 0 {
		return
	}
	facts := append(append([]*univFact(nil), x.reqFacts...), st.univ...)
	if os.Getenv("GOVC_DEBUG_UNIV") != "" {
		for _, f := range facts {
			fmt.Fprintf(os.Stderr, "univ at %s: %s %v\n", k.s, f.id, f.vars)
		}
	}
	for _, f := range facts {
		for _, v := range f.vars {
			sk, ok := x.skolem[v]
			if !ok || sk.t.s == "" || sk.t.srt.name != k.srt.name || sk.t.s == k.s {
				continue
			}
			key := f.id + "|" + v + "|" + k.s
			if st.univDone[key] {
				continue
			}
			if st.univDone == nil {
				st.univDone = map[string]bool{}
			}
			st.univDone[key] = true
			save := x.skolemOv
			x.skolemOv = map[string]val{v: scalar(k)}
			t := f.eval(st)
			x.skolemOv = save
			st.assume(t)
		}
	}
}

// localByName resolves a local variable of the function (not loop-carried) through debug references.
func (x *ctx) localByName(st *state, fr *frame, at *ssa.BasicBlock, name string) (val, bool) {
	var best ssa.Value
	var isAddr bool
	var bestBlk *ssa.BasicBlock
	// a variable captured by the closure being executed: its content in st (a debug reference to a value loaded earlier
	// would be stale, and would not follow the state the clause level is evaluated in)
	for _, fv := range fr.fn.FreeVars {
		if fv.Name() == name {
			if pv, bound := fr.regs[fv]; bound && pv.ptr != nil {
				return x.load(st, pv, deref(fv.Type())), true
			}
		}
	}
	for _, blk := range fr.fn.Blocks {
		for _, in := range blk.Instrs {
			if d, ok := in.(*ssa.DebugRef); ok {
				obj := d.Object()
				if obj == nil || obj.Name() != name {
					continue
				}
				if v, isVar := obj.(*types.Var); isVar && v.IsField() {
					continue // a field selector (p.probation), not the local variable of that name
				}
				if _, bound := fr.regs[d.X]; !bound {
					if _, isC := d.X.(*ssa.Const); !isC {
						continue
					}
				}
				if blk == at || blk.Dominates(at) {
					best, isAddr = d.X, d.IsAddr
					bestBlk = blk
				}
			}
		}
	}
	// a loop-carried variable: the phi of that name in the innermost dominating block that the last debug reference
	// does not come after (an assignment inside the loop is referenced in a block that does not dominate the exit, so
	// without this the variable would read as the value it was declared with)
	for _, blk := range fr.fn.Blocks {
		if !(blk == at || blk.Dominates(at)) {
			continue
		}
		for _, in := range blk.Instrs {
			ph, ok := in.(*ssa.Phi)
			if !ok {
				break
			}
			if ph.Comment != name {
				continue
			}
			if _, bound := fr.regs[ph]; !bound {
				continue
			}
			if bestBlk == nil || (bestBlk != blk && bestBlk.Dominates(blk)) {
				best, isAddr, bestBlk = ph, false, blk
			}
		}
	}
	if !isAddr {
		// an address-taken local (captured by a closure, or &x): its current content is in its cell; a debug reference to
		// the value it was initialised with must not shadow later assignments
		for _, blk := range fr.fn.Blocks {
			for _, in := range blk.Instrs {
				if al, ok := in.(*ssa.Alloc); ok && al.Comment == name {
					if pv, bound := fr.regs[al]; bound && pv.ptr != nil && pv.ptr.cell > 0 && (blk == at || blk.Dominates(at)) {
						if _, live := st.cells[pv.ptr.cell]; live {
							return x.load(st, pv, deref(al.Type())), true
						}
					}
				}
			}
		}
	}
	if best == nil {
		return val{}, false
	}
	v := x.get(fr, st, best)
	if isAddr {
		return x.load(st, v, deref(best.Type())), true
	}
	return v, true
}

// havocLoop havocs the heap keys and cells written inside the natural loop of header b.
func (x *ctx) havocLoop(st *state, fr *frame, b *ssa.BasicBlock) {
	blocks := loopBlocks(b)
	ms := &modSet{st: st, keys: map[string]bool{}, cells: map[int]bool{}, rows: map[string][]ssa.Value{}, inLoop: blocks}
	for blk := range blocks {
		for _, in := range blk.Instrs {
			x.instrMods(fr, in, ms, 0)
		}
	}
	// loads of loop-invariant fields used as bases
	lazyTerms := map[string][]string{}
	for _, lz := range ms.lazy {
		if lz.cell != nil {
			cp, bound := fr.regs[lz.cell]
			if !bound || cp.ptr == nil || cp.ptr.cell == 0 || ms.cells[cp.ptr.cell] || ms.all {
				ms.keys[lz.key] = true
				continue
			}
			cvl, have := st.cells[cp.ptr.cell]
			if !have || cvl.t.s == "" {
				ms.keys[lz.key] = true
				continue
			}
			lazyTerms[lz.key] = append(lazyTerms[lz.key], cvl.t.s)
			if _, ok := ms.rows[lz.key]; !ok {
				ms.rows[lz.key] = nil
			}
			continue
		}
		if ms.keys[lz.dep] || len(ms.rows[lz.dep]) > 0 || ms.all {
			ms.keys[lz.key] = true
			continue
		}
		ob, bound := fr.regs[lz.fa.X]
		if !bound || ob.t.s == "" {
			ms.keys[lz.key] = true
			continue
		}
		stT := deref(lz.fa.X.Type()).Underlying().(*types.Struct)
		ft := stT.Field(lz.fa.Field).Type()
		srt, leaf := x.leafSort(ft)
		if !leaf {
			ms.keys[lz.key] = true
			continue
		}
		bt := x.readLeafHeap(st, &loc{base: ob.t}, lz.dep, srt)
		lazyTerms[lz.key] = append(lazyTerms[lz.key], bt.s)
		if _, ok := ms.rows[lz.key]; !ok {
			ms.rows[lz.key] = nil
		}
	}
	// row-wise havoc for keys that are only written at loop-invariant bases
	var rkeys []string
	for k := range ms.rows {
		rkeys = append(rkeys, k)
	}
	sort.Strings(rkeys)
	for _, k := range rkeys {
		if ms.keys[k] || ms.all {
			continue
		}
		hi, ok := x.hinfo[x.akey(k)]
		if !ok {
			ms.keys[k] = true
			continue
		}
		seenB := map[string]bool{}
		for _, bv := range ms.rows[k] {
			base, bound := fr.regs[bv]
			if _, isC := bv.(*ssa.Const); isC {
				base, bound = x.get(fr, st, bv), true
			}
			if !bound || base.t.s == "" || seenB[base.t.s] {
				if !bound || base.t.s == "" {
					ms.keys[k] = true
				}
				continue
			}
			seenB[base.t.s] = true
		}
		if ms.keys[k] {
			continue
		}
		for _, lt := range lazyTerms[k] {
			seenB[lt] = true
		}
		var bl []string
		for bs := range seenB {
			bl = append(bl, bs)
		}
		sort.Strings(bl)
		for _, bs := range bl {
			x.havocRow(st, k, hi, bs)
		}
	}
	if ms.all {
		debugf("loop %d of %s havocs everything (a callee in the body modifies *)", loopOrdinal(b), fr.fn.Name())
		x.havocAll(st, "*")
	}
	var keys []string
	for k := range ms.keys {
		keys = append(keys, k)
	}
	sort.Strings(keys)
	for _, k := range keys {
		if k == "Len" {
			continue // the length of an existing slice value never changes (append and slicing create new references)
		}
		x.havocKey(st, k)
	}
	for id := range ms.cells {
		if t, ok := x.cellRootType[id]; ok {
			st.cells[id] = x.freshVal("loopcell", t)
			if v := st.cells[id]; v.t.s != "" && isRefType(t) {
				x.typeTag(st, v.t, t)
				x.noteAllocated(st, v.t)
				if al := x.cellAlloc[id]; al != nil && localMapCell(al, map[ssa.Value]bool{}) {
					x.markLocal(st, v.t)
				}
			}
		}
	}
}

// localMapValue reports whether v is a map that can only have been created by the enclosing function (make or nil,
// through phis and through local variables that are never assigned anything else and never escape).
func localMapValue(v ssa.Value, seen map[ssa.Value]bool) bool {
	if _, isMap := v.Type().Underlying().(*types.Map); !isMap {
		return false
	}
	if seen[v] {
		return true
	}
	seen[v] = true
	switch v := v.(type) {
	case *ssa.MakeMap:
		return true
	case *ssa.Const:
		return v.IsNil()
	case *ssa.Phi:
		for _, e := range v.Edges {
			if !localMapValue(e, seen) {
				return false
			}
		}
		return true
	case *ssa.UnOp:
		if al, ok := v.X.(*ssa.Alloc); ok && v.Op == token.MUL {
			return localMapCell(al, seen)
		}
	}
	return false
}

func localMapCell(al *ssa.Alloc, seen map[ssa.Value]bool) bool {
	if _, isMap := deref(al.Type()).Underlying().(*types.Map); !isMap {
		return false
	}
	if seen[al] {
		return true
	}
	seen[al] = true
	if al.Referrers() == nil {
		return false
	}
	for _, r := range *al.Referrers() {
		switch r := r.(type) {
		case *ssa.UnOp, *ssa.DebugRef:
		case *ssa.Store:
			if r.Addr != ssa.Value(al) || !localMapValue(r.Val, seen) {
				return false
			}
		default:
			return false // captured by a closure or passed on: other code may assign it
		}
	}
	return true
}

// markLocal records that the loop-carried value r denotes a map created by the function under verification (or nil):
// it differs from every reference the function received, and calls that do not receive it cannot write it.
func (x *ctx) markLocal(st *state, r term) {
	if x.spec != 0 || r.s == "" {
		return
	}
	var names []string
	for n := range x.params {
		names = append(names, n)
	}
	sort.Strings(names)
	for _, n := range names {
		if p := x.params[n]; p.t.s != "" && p.t.srt == sRef {
			st.define(fmt.Sprintf("(or (= %s %s) %s)", r.s, null.s, not(eq(r, p.t))))
		}
	}
	x.allocated = append(x.allocated, r)
}

type modSet struct {
	skipCb bool   // own footprint: the effects of callbacks under contract are left out
	st     *state // state at the loop head (resolves function values held in captured variables)
	keys   map[string]bool
	cells  map[int]bool
	all    bool
	// row-wise writes: heap key -> base values (objects / slices / maps) whose row is written; only used when the
	// base is defined outside the loop
	rows   map[string][]ssa.Value
	inLoop map[*ssa.BasicBlock]bool
	lazy   []lazyRow
}

type lazyRow struct {
	key  string
	cell ssa.Value // Alloc / FreeVar holding the base
	fa   *ssa.FieldAddr
	dep  string // heap key of the field that is loaded; must not be written in the loop
}

// rowWrite records a write to the row of base in key; falls back to the whole key when base varies in the loop.
func (ms *modSet) rowWrite(key string, base ssa.Value) {
	if ms.rows == nil || ms.inLoop == nil {
		ms.keys[key] = true
		return
	}
	invariant := false
	switch b := base.(type) {
	case *ssa.Parameter, *ssa.FreeVar, *ssa.Const, *ssa.Global:
		invariant = true
	case ssa.Instruction:
		invariant = !ms.inLoop[b.Block()]
		if !invariant {
			// a load of a field of a loop-invariant object (s.table): invariant if that field is not written in the loop
			if u, ok := b.(*ssa.UnOp); ok && u.Op == token.MUL {
				switch cv := u.X.(type) {
				case *ssa.Alloc, *ssa.FreeVar:
					// a load of a local / captured variable: invariant if the variable is not assigned in the loop
					ms.lazy = append(ms.lazy, lazyRow{key: key, cell: cv})
					return
				}
				if fa, ok := u.X.(*ssa.FieldAddr); ok {
					inv2 := false
					switch fb := fa.X.(type) {
					case *ssa.Parameter, *ssa.FreeVar:
						inv2 = true
					case ssa.Instruction:
						inv2 = !ms.inLoop[fb.Block()]
					}
					if inv2 {
						stT := deref(fa.X.Type()).Underlying().(*types.Struct)
						ms.lazy = append(ms.lazy, lazyRow{key: key, fa: fa, dep: structName(deref(fa.X.Type())) + "." + stT.Field(fa.Field).Name()})
						return
					}
				}
			}
		}
	}
	if !invariant {
		ms.keys[key] = true
		return
	}
	ms.rows[key] = append(ms.rows[key], base)
}

func (x *ctx) addrKey(fr *frame, a ssa.Value, ms *modSet) {
	switch v := a.(type) {
	case *ssa.FieldAddr:
		stT := deref(v.X.Type()).Underlying().(*types.Struct)
		// nested field of a local cell?
		if r, ok := fr.regs[v.X]; ok && r.ptr != nil && r.ptr.cell > 0 {
			ms.cells[r.ptr.cell] = true
			return
		}
		if inner, ok := v.X.(*ssa.FieldAddr); ok {
			sub := &modSet{keys: map[string]bool{}, cells: ms.cells}
			x.addrKey(fr, inner, sub)
			for k := range sub.keys {
				ms.keys[k+"."+stT.Field(v.Field).Name()] = true
			}
			return
		}
		key := structName(deref(v.X.Type())) + "." + stT.Field(v.Field).Name()
		if _, leaf := x.leafSort(stT.Field(v.Field).Type()); leaf && ms.rows != nil {
			ms.rowWrite(key, v.X)
		} else {
			x.addLeafKeys(key, stT.Field(v.Field).Type(), ms)
		}
	case *ssa.IndexAddr:
		elem := deref(v.Type())
		if _, isSlice := v.X.Type().Underlying().(*types.Slice); isSlice && ms.rows != nil {
			ms.rowWrite(x.elemKey(elem), v.X)
		} else {
			ms.keys[x.elemKey(elem)] = true
		}
	case *ssa.Alloc:
		if r, ok := fr.regs[v]; ok && r.ptr != nil && r.ptr.cell > 0 {
			ms.cells[r.ptr.cell] = true
		}
	case *ssa.FreeVar, *ssa.Parameter:
		if r, ok := fr.regs[v]; ok && r.ptr != nil && r.ptr.cell > 0 {
			ms.cells[r.ptr.cell] = true
		}
	case *ssa.Global:
		ms.keys["global."+v.Pkg.Pkg.Name()+"."+v.Name()] = true
	default:
		t := deref(a.Type())
		if _, ok := x.leafSort(t); ok {
			ms.keys["deref."+leafKey(x, t)] = true
		} else {
			x.addLeafKeys(structName(t), t, ms)
		}
	}
}

func (x *ctx) addLeafKeys(key string, t types.Type, ms *modSet) {
	if _, ok := x.leafSort(t); ok {
		ms.keys[key] = true
		return
	}
	if s, ok := t.Underlying().(*types.Struct); ok {
		for i := 0; i < s.NumFields(); i++ {
			x.addLeafKeys(key+"."+s.Field(i).Name(), s.Field(i).Type(), ms)
		}
	}
}

func (x *ctx) instrMods(fr *frame, in ssa.Instruction, ms *modSet, depth int) {
	switch v := in.(type) {
	case *ssa.Store:
		if fa, ok := v.Addr.(*ssa.FieldAddr); ok {
			if al, ok := fa.X.(*ssa.Alloc); ok && al.Heap {
				return // a field of an object created in this very iteration: existing objects are untouched
			}
		}
		if ia, ok := v.Addr.(*ssa.IndexAddr); ok {
			if _, ok := ia.X.(*ssa.Alloc); ok {
				return // an element of an array created in this very iteration (variadic argument packs)
			}
		}
		x.addrKey(fr, v.Addr, ms)
	case *ssa.Next:
		ms.keys["G:visited"] = true
	case *ssa.MapUpdate:
		if mt, ok := v.Map.Type().Underlying().(*types.Map); ok {
			if ks, ok := x.leafSort(mt.Key()); ok {
				ms.rowWrite(x.ghostKey(x.mapP(ks)), v.Map)
				if vs, ok := x.leafSort(mt.Elem()); ok {
					ms.rowWrite(x.ghostKey(x.mapV(ks, vs)), v.Map)
				}
			}
		}
		ms.rowWrite("G:mapN", v.Map)
	case *ssa.MakeSlice, *ssa.Slice:
		// fresh references only
	case *ssa.Send:
		ms.keys["G:chanSent"] = true
	case *ssa.Call:
		x.callMods(fr, v.Common(), ms, depth)
	case *ssa.Defer:
		x.callMods(fr, v.Common(), ms, depth)
	}
}

func (x *ctx) contractMods(con *Contract, mods []*ModItem, ms *modSet) {
	for _, mi := range mods {
		switch mi.Kind {
		case "whole":
			if mi.Type == "*" {
				ms.all = true
			} else if mi.Field == "*" {
				for k := range x.hinfo {
					if strings.HasPrefix(k, mi.Type+".") || (mi.Type == "node" && strings.HasPrefix(k, "G:")) {
						ms.keys[k] = true
					}
				}
			} else if mi.Type == "node" {
				ms.keys["G:"+mi.Field] = true
			} else {
				ms.keys[mi.Type+"."+mi.Field] = true
			}
		case "wholekey":
			ms.keys[mi.Field] = true
		case "mapof", "allmaps":
			for k := range x.hinfo {
				if strings.HasPrefix(k, "G:mapP_") || strings.HasPrefix(k, "G:mapV_") || k == "G:mapN" {
					ms.keys[k] = true
				}
			}
		case "resultfield":
			ms.keys["G:"+mi.Field] = true
		case "ghost", "ghostall":
			ms.keys[x.ghostKey(mi.Ghost)] = true
			if strings.HasPrefix(mi.Ghost, "ghost_calls_") {
				short := strings.TrimPrefix(mi.Ghost, "ghost_calls_")
				for k := range x.hinfo {
					if strings.HasPrefix(k, "G:arg_"+short+"_") || k == "G:ret_"+short || strings.HasPrefix(k, "G:ret_"+short+"_") || strings.HasPrefix(k, "G:last_"+short+"_") {
						ms.keys[k] = true
					}
				}
			}
		case "field":
			f := x.synth(con, mi.ArgFns[0])
			bt := x.modBaseType(f)
			if x.isNodeIface(bt) {
				ms.keys["G:"+mi.Field] = true
			} else if stT, ok := deref(bt).Underlying().(*types.Struct); ok {
				for i := 0; i < stT.NumFields(); i++ {
					if stT.Field(i).Name() == mi.Field {
						x.addLeafKeys(structName(deref(bt))+"."+mi.Field, stT.Field(i).Type(), ms)
					}
				}
			}
		case "elems", "elem":
			f := x.synth(con, mi.ArgFns[0])
			bt := x.modBaseType(f)
			if sl, ok := bt.Underlying().(*types.Slice); ok {
				ms.keys[x.elemKey(sl.Elem())] = true
			}
		}
	}
}

func (x *ctx) callMods(fr *frame, c *ssa.CallCommon, ms *modSet, depth int) {
	if c.IsInvoke() {
		if con := x.w.ifaceContract(c.Value.Type(), c.Method.Name()); con != nil {
			x.contractMods(con, con.Mods, ms)
			return
		}
		if keys, ok := x.invokeModKeys(c); ok {
			for _, k := range keys {
				ms.keys[k] = true
			}
		}
		return
	}
	switch v := c.Value.(type) {
	case *ssa.Builtin:
		if v.Name() == "copy" {
			if sl, ok := c.Args[0].Type().Underlying().(*types.Slice); ok {
				ms.keys[x.elemKey(sl.Elem())] = true
			}
		}
		// append writes only the rows of the fresh slice it returns
		if v.Name() == "delete" {
			if mt, ok := c.Args[0].Type().Underlying().(*types.Map); ok {
				if ks, ok := x.leafSort(mt.Key()); ok {
					ms.keys[x.ghostKey(x.mapP(ks))] = true
				}
			}
			ms.keys["G:mapN"] = true
		}
		return
	case *ssa.Parameter:
		if fr.con != nil {
			if cb := fr.con.Cbs[v.Name()]; cb != nil {
				if !ms.skipCb {
					x.contractMods(fr.con, cb.Mods, ms)
				}
				return
			}
		}
	}
	callee := c.StaticCallee()
	if callee == nil {
		if mc, ok := c.Value.(*ssa.MakeClosure); ok {
			callee = mc.Fn.(*ssa.Function)
		}
	}
	if callee == nil {
		// a function value held in a register or a captured variable: a callback under contract, or a known closure
		if fv, ok := x.fnValOf(fr, ms.st, c.Value); ok {
			if fv.cb != nil {
				if !ms.skipCb {
					x.contractMods(fv.cb.con, fv.cb.spec.Mods, ms)
				}
				return
			}
			if fv.fn != nil {
				callee = fv.fn
				if callee.Synthetic != "" && strings.HasPrefix(callee.Synthetic, "bound method wrapper") {
					if fo, ok := callee.Object().(*types.Func); ok {
						m := x.w.prog.FuncValue(fo)
						if m == nil {
							m = x.w.prog.FuncValue(fo.Origin())
						}
						if m != nil {
							callee = m
						}
					}
				}
			}
		} else if p := x.paramOf(c.Value); p != nil && x.con != nil && x.con.Cbs[p.Name()] != nil {
			if !ms.skipCb {
				x.contractMods(x.con, x.con.Cbs[p.Name()].Mods, ms)
			}
			return
		} else if p != nil || userCallbackValue(c.Value) {
			return // a function-typed parameter without a callback contract: user callback (A-callbacks)
		} else {
			debugf("callMods: unresolved function value %s in %s: everything havocked", c.Value, fr.fn)
			ms.all = true
			return
		}
	}
	if callee == nil {
		return // unknown function value: user-callback rule, heap unchanged
	}
	if o := callee.Origin(); o != nil {
		callee = o
	}
	key := fnKey(callee)
	if con := x.w.contracts[key]; con != nil && !con.Flags["inline"] {
		x.contractMods(con, con.Mods, ms)
		return
	}
	if key == "encoding/gob.Decoder.Decode" && len(c.Args) == 2 {
		// the decoder writes through the pointer it is given
		tv := c.Args[1]
		if mi, ok := tv.(*ssa.MakeInterface); ok {
			tv = mi.X
		}
		if r, ok := fr.regs[tv]; ok && r.ptr != nil && r.ptr.cell > 0 {
			ms.cells[r.ptr.cell] = true
		} else if pt, ok := tv.Type().Underlying().(*types.Pointer); ok {
			if _, leaf := x.leafSort(pt.Elem()); leaf {
				ms.keys["deref."+leafKey(x, pt.Elem())] = true
			} else {
				x.addLeafKeys(structName(pt.Elem()), pt.Elem(), ms)
			}
		} else {
			ms.all = true
		}
		return
	}
	if keys, ok := x.modelModKeys(key, callee, c); ok {
		for _, k := range keys {
			ms.keys[k] = true
		}
		return
	}
	if callee.Blocks == nil || !x.w.isRepoPkg(callee) || depth > 4 {
		return
	}
	for _, blk := range callee.Blocks {
		for _, in := range blk.Instrs {
			x.instrMods(&frame{fn: callee, regs: map[ssa.Value]val{}}, in, ms, depth+1)
		}
	}
}

func mapValKey(x *ctx, t types.Type) string {
	m, ok := t.Underlying().(*types.Map)
	if !ok {
		return "?"
	}
	if s, ok := x.leafSort(m.Elem()); ok {
		return symName(s.name)
	}
	return structName(m.Elem())
}

var _ = token.ADD

// siteAssertions checks the `site NAME: requires` clauses of the verified function at a call of NAME.
func (x *ctx) siteAssertions(st *state, fr *frame, b *ssa.BasicBlock, in *ssa.Call) {
	c := in.Common()
	name := ""
	switch {
	case c.IsInvoke():
		name = c.Method.Name()
	case c.StaticCallee() != nil:
		name = c.StaticCallee().Name()
	default:
		name = sourceName(c.Value)
	}
	if j := strings.Index(name, "["); j > 0 {
		name = name[:j] // instantiated generic: Set[K V]
	}
	// the evaluated operands of the call are available to the assertions as arg0, arg1, ... (arg0 is the receiver of a
	// method call) when the contract declares variables of those names (`var arg2 bool`)
	x.siteArgs = nil
	if c.IsInvoke() {
		x.siteArgs = append(x.siteArgs, x.get(fr, st, c.Value))
	}
	for _, a := range c.Args {
		x.siteArgs = append(x.siteArgs, x.get(fr, st, a))
	}
	x.siteAssertionsAt(st, fr, b, name, false)
	x.siteArgs = nil
}

// siteAssertionsAt evaluates the `site <name>:` assertions at the current point of fr. The pseudo-site `return`
// (qualified only: `site <function or closure>.return:`) is the point of every return instruction of that function.
func (x *ctx) siteAssertionsAt(st *state, fr *frame, b *ssa.BasicBlock, name string, qualifiedOnly bool) {
	var cls []*Clause
	if x.siteHit == nil {
		x.siteHit = map[string]bool{}
	}
	if !qualifiedOnly {
		cls = x.con.Sites[name]
		if len(cls) > 0 {
			x.siteHit[name] = true
		}
	}
	// `site <closure>.<callee>:` restricts the assertion to the calls inside that closure of the verified function
	q := fr.fn.Name() + "." + name
	if len(x.con.Sites[q]) > 0 {
		cls = append(append([]*Clause(nil), cls...), x.con.Sites[q]...)
		if !qualifiedOnly {
			x.siteHit[q] = true
		}
	}
	if len(cls) == 0 {
		return
	}
	penv := func(n string, t types.Type) (val, bool) { v, ok := x.params[n]; return v, ok }
	// lenvIn: the locals as they are in state s (address-taken locals live in cells, whose content depends on the state:
	// iter(size) must read the cell as it was when the iteration started)
	lenvIn := func(s *state) envFn {
		return func(n string, t types.Type) (val, bool) {
			if strings.HasPrefix(n, "arg") && len(x.siteArgs) > 0 {
				if k, err := strconv.Atoi(n[3:]); err == nil && k < len(x.siteArgs) {
					return x.siteArgs[k], true
				}
			}
			if v, ok := x.localByName(s, fr, b, n); ok {
				return v, true
			}
			if fr.fn.Parent() != nil && declaresLocal(fr.fn, n) {
				// a local of this closure that is not in scope here must not be taken for a local of the same name of an
				// enclosing function
				return val{}, false
			}
			// enclosing frames (the call may sit in a closure of the verified function)
			for i := len(x.frames) - 1; i >= 0; i-- {
				of := x.frames[i]
				if of.fn != x.fn && of.fn.Parent() == nil {
					continue
				}
				if v, ok := x.localAnywhere(s, of, n); ok {
					return v, true
				}
			}
			return penv(n, t)
		}
	}
	lenv := lenvIn(st)
	for _, cl := range cls {
		if qualifiedOnly {
			// a return that precedes the declaration of a local the assertion mentions: nothing to assert there
			inScope := true
			for _, n := range cl.P3 {
				if _, ok := lenv(n, nil); !ok {
					inScope = false
				}
			}
			if !inScope {
				continue
			}
			x.siteHit[q] = true
		}
		pc := x.pre.clone()
		np := len(pc.pc)
		saveOv := x.skolemOv
		if len(x.siteArgs) > 0 {
			// declared variables named arg<k> stand for the operands of this call
			ov := map[string]val{}
			for k, v := range saveOv {
				ov[k] = v
			}
			for _, vd := range x.con.Vars {
				if strings.HasPrefix(vd.Name, "arg") {
					if k, err := strconv.Atoi(vd.Name[3:]); err == nil && k < len(x.siteArgs) {
						ov[vd.Name] = x.siteArgs[k]
					}
				}
			}
			x.skolemOv = ov
		}
		l1 := x.clauseL1(pc, x.con, cl, penv)
		x.skolemOv = saveOv
		for id, v := range pc.cells {
			if _, ok := st.cells[id]; !ok {
				st.cells[id] = v
			}
		}
		for _, f := range pc.pc[np:] {
			if f.def {
				st.define(f.t)
			}
		}
		if cl.Levels == 3 {
			// iter(...): the middle level is evaluated in the state at the start of the current loop iteration
			snap := st.snaps["iter"]
			if snap == nil {
				x.fail("site %s in %s: iter(...) used outside a loop under contract", name, x.con.Target)
			}
			sc := snap.clone()
			n0 := len(sc.pc)
			for id, v := range pc.cells {
				if _, ok := sc.cells[id]; !ok {
					sc.cells[id] = v
				}
			}
			if os.Getenv("GOVC_DEBUG") != "" {
				for _, n := range cl.P3 {
					a, _ := lenvIn(sc)(n, nil)
					c2, _ := lenv(n, nil)
					debugf("iter-level %s: snapshot=%s current=%s", n, a.t.s, c2.t.s)
				}
			}
			l1 = x.applyClosure(sc, l1, cl.P3, lenvIn(sc))
			for _, f := range sc.pc[n0:] {
				if f.def {
					st.define(f.t)
				}
			}
			for id, v := range sc.cells {
				if _, ok := st.cells[id]; !ok {
					st.cells[id] = v
				}
			}
		}
		g := x.applyClosure(st, l1, cl.P3, lenv)
		x.oblige(st, "site-requires", cl.Tag(), name, g.t.s, "")
		st.assume(g.t.s)
	}
}

// declaresLocal: fn has a local variable (not a field selector) of that name.
func declaresLocal(fn *ssa.Function, name string) bool {
	for _, blk := range fn.Blocks {
		for _, in := range blk.Instrs {
			if d, ok := in.(*ssa.DebugRef); ok && d.Object() != nil && d.Object().Name() == name {
				if v, isVar := d.Object().(*types.Var); isVar && !v.IsField() && v.Parent() != nil && v.Pos() >= fn.Pos() {
					return true
				}
			}
		}
	}
	return false
}

// localAnywhere resolves a local of frame of by name using any bound debug reference (last one wins).
func (x *ctx) localAnywhere(st *state, of *frame, name string) (val, bool) {
	var best ssa.Value
	var isAddr bool
	for _, blk := range of.fn.Blocks {
		for _, in := range blk.Instrs {
			if d, ok := in.(*ssa.DebugRef); ok {
				obj := d.Object()
				if obj == nil || obj.Name() != name {
					continue
				}
				if v, isVar := obj.(*types.Var); isVar && v.IsField() {
					continue // a field selector (p.probation), not the local variable of that name
				}
				if _, bound := of.regs[d.X]; !bound {
					if _, isC := d.X.(*ssa.Const); !isC {
						continue
					}
				}
				best, isAddr = d.X, d.IsAddr
			}
		}
	}
	// an address-taken local: its current content is in its cell (see localByName)
	for _, blk := range of.fn.Blocks {
		for _, in := range blk.Instrs {
			if al, ok := in.(*ssa.Alloc); ok && al.Comment == name {
				if pv, bound := of.regs[al]; bound && pv.ptr != nil && pv.ptr.cell > 0 {
					if _, live := st.cells[pv.ptr.cell]; live {
						return x.load(st, pv, deref(al.Type())), true
					}
				}
			}
		}
	}
	if best == nil {
		return val{}, false
	}
	v := x.get(of, st, best)
	if isAddr {
		return x.load(st, v, deref(best.Type())), true
	}
	return v, true
}

// ---------------------------------------------------------------- callback conformance

// callbackConformance: a function whose contract constrains a function-typed parameter (callback contract) assumes, at
// every invocation of that parameter, the callback's modifies and ensures. The caller that passes a function value owes
// the proof that the value satisfies the callback contract. It is discharged here, at the call site: in an arbitrary
// state that the callee can be in when it invokes the callback (the callee's declared footprint havocked), with the
// callback's requires assumed for arbitrary callback arguments, the value is executed (by its own contract when it has
// one - its preconditions become call-requires obligations - or by its body), and then
//   - every location it wrote must be listed in the callback's modifies   (callback-frame)
//   - the callback's ensures must hold                                     (callback-ensures)
func (x *ctx) callbackConformance(st *state, fr *frame, con *Contract, callee *ssa.Function, args []val, env envFn) {
	var names []string
	for name := range con.Cbs {
		if !strings.HasPrefix(name, "result:") {
			names = append(names, name)
		}
	}
	sort.Strings(names)
	// function-typed parameters without a callback contract are verified in the callee under the user-callback rule
	// (heap unchanged, A-callbacks). A caller that passes one of the repository's own closures or methods for such a
	// parameter owes the proof that the value really leaves the heap unchanged: an empty callback contract.
	pure := map[string]*CbSpec{}
	if callee != nil {
		for i, p := range callee.Params {
			if _, isFn := p.Type().Underlying().(*types.Signature); !isFn || i >= len(args) || i >= len(con.Params) {
				continue
			}
			pn := con.Params[i]
			if con.Cbs[pn] != nil || args[i].fn == nil || !x.w.isRepoPkg(args[i].fn) || con.Flags["assumed"] {
				continue
			}
			if af := args[i].fn; af.Synthetic != "" && strings.HasPrefix(af.Synthetic, "bound method wrapper") {
				if fo, ok := af.Object().(*types.Func); ok {
					if _, isIface := fo.Type().(*types.Signature).Recv().Type().Underlying().(*types.Interface); isIface {
						continue // a method value of a user-supplied interface (loader.Load): user callback
					}
				}
			}
			pure[pn] = &CbSpec{Name: pn}
			names = append(names, pn)
		}
	}
	for _, name := range names {
		spec := con.Cbs[name]
		isPure := false
		if spec == nil {
			spec, isPure = pure[name], true
		}
		idx := -1
		for i, p := range con.Params {
			if p == name {
				idx = i
			}
		}
		if idx < 0 || idx >= len(args) {
			x.fail("callback contract %s of %s: no such parameter", name, con.Target)
		}
		a := args[idx]
		if a.cb != nil && a.cb.spec == spec {
			continue // the same contract, forwarded in a recursive call
		}
		if a.fn == nil && a.cb == nil {
			if a.t.s == null.s {
				continue
			}
			x.fail("callback argument %s of %s is not a known function value: its callback contract cannot be checked at this call site", name, con.Target)
		}
		var sig *types.Signature
		if callee != nil && idx < len(callee.Params) {
			sig, _ = callee.Params[idx].Type().Underlying().(*types.Signature)
		}
		if sig == nil {
			x.fail("callback contract %s of %s: parameter is not a function", name, con.Target)
		}
		S := st.clone()
		x.applyModifies(S, st, con, con.Mods, env)
		// callback invariant of the caller (site NAME: callback-invariant I): I holds at the call, is kept by the
		// callee's own writes (own-modifies) and by the function value passed; by induction over the callee's steps it
		// holds whenever the callback is invoked, and when the callee returns.
		evalI := x.cbInvariant(con)
		if evalI != nil {
			x.oblige(st, "callback-invariant-entry", "", shortTarget(con.Target)+":"+name, evalI(st), "the callback invariant must hold when the callee is entered")
			S.assume(evalI(S))
			own := con.Mods
			if con.HasOwn {
				own = con.OwnMods
			}
			S2 := S.clone()
			x.applyModifies(S2, st, con, own, env)
			x.oblige(S2, "callback-invariant-stable", "", shortTarget(con.Target)+":"+name, evalI(S2), "the callback invariant must survive the callee's own writes (own-modifies)")
		}
		var cbArgs []val
		for i := 0; i < sig.Params().Len(); i++ {
			p := sig.Params().At(i)
			v := x.freshVal("cbarg_"+name+"_"+p.Name(), p.Type())
			if v.t.s != "" && v.t.srt == sRef {
				x.noteAllocated(S, v.t)
				x.typeTag(S, v.t, p.Type())
			}
			cbArgs = append(cbArgs, v)
		}
		cenv := func(cl *Clause) envFn {
			return func(n string, t types.Type) (val, bool) {
				np := len(cl.P1) - len(cbArgs)
				for i := np; i < len(cl.P1); i++ {
					if i >= 0 && cl.P1[i] == n && i-np < len(cbArgs) {
						return cbArgs[i-np], true
					}
				}
				return env(n, t)
			}
		}
		merge := func(from *state, n0 int, to *state) {
			for id, v := range from.cells {
				if _, ok := to.cells[id]; !ok {
					to.cells[id] = v
				}
			}
			for _, f := range from.pc[n0:] {
				if f.def {
					to.define(f.t)
				}
			}
		}
		for _, cl := range spec.Requires {
			var g val
			if cl.Levels == 2 {
				pc := st.clone()
				np := len(pc.pc)
				l1 := x.clauseL1(pc, con, cl, env)
				merge(pc, np, S)
				g = x.applyClosure(S, l1, cl.P3, func(n string, t types.Type) (val, bool) {
					for i, pn := range cl.P3 {
						if pn == n && i < len(cbArgs) {
							return cbArgs[i], true
						}
					}
					return env(n, t)
				})
			} else {
				g = x.clauseL1(S, con, cl, cenv(cl))
			}
			S.assume(g.t.s)
		}
		Spre := S.clone()
		type pend struct {
			cl *Clause
			l1 val
		}
		var pends []pend
		npre := len(Spre.pc)
		for _, cl := range spec.Ensures {
			pends = append(pends, pend{cl, x.clauseL1(Spre, con, cl, cenv(cl))})
		}
		merge(Spre, npre, S)
		var rt types.Type = sig.Results()
		if sig.Results().Len() == 1 {
			rt = sig.Results().At(0).Type()
		}
		saveSite, saveFrom := x.siteCtx, x.allocFrom
		x.siteCtx = "%as-callback(" + name + ")"
		x.allocFrom = len(x.allocated)
		savePaths := x.paths
		outs := x.callValue(S, fr, a, cbArgs, nil, rt)
		x.paths = savePaths
		site := shortTarget(con.Target) + ":" + name
		userValue := false
		if a.fn != nil && a.fn.Synthetic != "" && strings.HasPrefix(a.fn.Synthetic, "bound method wrapper") {
			if fo, ok := a.fn.Object().(*types.Func); ok {
				_, userValue = fo.Type().(*types.Signature).Recv().Type().Underlying().(*types.Interface)
			}
		}
		exempt := func(k string) bool {
			if (isPure || userValue) && strings.HasPrefix(k, "G:calls_") {
				return true // invocation logs of the user callbacks that the value itself calls
			}
			return k == "G:calls_"+name || strings.HasPrefix(k, "G:calls_") && a.fn != nil && k == "G:calls_"+a.fn.Name()
		}
		penv := func(n string, t types.Type) (val, bool) {
			// modifies items of a callback contract: enclosing parameters, then the callback's (cb_-prefixed) parameters
			for i := 0; i < sig.Params().Len(); i++ {
				pn := "cb_" + sig.Params().At(i).Name()
				if sig.Params().At(i).Name() == "" || sig.Params().At(i).Name() == "_" {
					pn = fmt.Sprintf("cb%d", i)
				}
				if pn == n {
					return cbArgs[i], true
				}
			}
			return env(n, t)
		}
		for _, o := range outs {
			if o.panic {
				continue
			}
			x.siteCtx = saveSite
			kindName := "callback-frame[" + site + "]"
			if isPure {
				kindName = "user-callback-pure[" + site + "]"
			}
			x.frameCheck(o.st, Spre, Spre, con, spec.Mods, penv, o.ret, kindName, exempt)
			for _, p := range pends {
				l2 := x.applyClosure(o.st, p.l1, nil, cenv(p.cl))
				l2 = x.applyClosure(o.st, l2, nil, cenv(p.cl))
				r := x.applyClosure(o.st, l2, p.cl.P3, func(n string, t types.Type) (val, bool) {
					if n == "cbr0" {
						return o.ret, true
					}
					return cenv(p.cl)(n, t)
				})
				x.oblige(o.st, "callback-ensures", p.cl.Tag(), site, r.t.s, "the function value passed must establish the ensures of the callee's callback contract")
			}
			if evalI != nil {
				x.oblige(o.st, "callback-invariant-kept", "", site, evalI(o.st), "the function value passed must keep the callback invariant")
			}
		}
		x.siteCtx, x.allocFrom = saveSite, saveFrom
	}
}

// fnValOf resolves a function-typed SSA value without executing: a bound register, or a load of a captured / local
// variable whose cell is known.
func (x *ctx) fnValOf(fr *frame, st *state, v ssa.Value) (val, bool) {
	if r, ok := fr.regs[v]; ok && (r.cb != nil || r.fn != nil) {
		return r, true
	}
	if u, ok := v.(*ssa.UnOp); ok && u.Op == token.MUL && st != nil {
		if p, ok := fr.regs[u.X]; ok && p.ptr != nil && p.ptr.cell > 0 {
			if cv, ok := st.cells[p.ptr.cell]; ok && (cv.cb != nil || cv.fn != nil) {
				return cv, true
			}
		}
	}
	return val{}, false
}

// userCallbackValue: function values that come from the user (struct fields such as c.onDeletion, interface method
// values, function-typed parameters without a callback contract): A-callbacks applies, the heap is unchanged.
func userCallbackValue(v ssa.Value) bool {
	switch u := v.(type) {
	case *ssa.Parameter:
		return true
	case *ssa.UnOp:
		if u.Op == token.MUL {
			switch a := u.X.(type) {
			case *ssa.FieldAddr:
				return true
			case *ssa.FreeVar, *ssa.Alloc:
				_ = a
				return false
			}
		}
	case *ssa.MakeClosure:
		return false
	case *ssa.Field:
		return true
	}
	return false
}

// cbInvariant returns an evaluator of the conjunction of the `site NAME: callback-invariant` clauses that the function
// under verification declares for calls of con's function (nil when there are none or no call site is active).
func (x *ctx) cbInvariant(con *Contract) func(s *state) string {
	if x.con == nil || x.siteFr == nil || con.Obj == nil {
		return nil
	}
	cls := x.con.CbInvs[con.Obj.Name()]
	if len(cls) == 0 {
		return nil
	}
	fr, b := x.siteFr, x.siteBlk
	if x.cbInvHit == nil {
		x.cbInvHit = map[string]bool{}
	}
	x.cbInvHit[con.Obj.Name()] = true
	penv := func(n string, t types.Type) (val, bool) { v, ok := x.params[n]; return v, ok }
	// locals are resolved once, in the state of the call site
	return func(s *state) string {
		lenv := func(n string, t types.Type) (val, bool) {
			if v, ok := x.localByName(s, fr, b, n); ok {
				return v, true
			}
			for i := len(x.frames) - 1; i >= 0; i-- {
				of := x.frames[i]
				if of.fn != x.fn && of.fn.Parent() == nil {
					continue
				}
				if v, ok := x.localAnywhere(s, of, n); ok {
					return v, true
				}
			}
			return penv(n, t)
		}
		var parts []string
		for _, cl := range cls {
			pc := x.pre.clone()
			np := len(pc.pc)
			l1 := x.clauseL1(pc, x.con, cl, penv)
			for id, v := range pc.cells {
				if _, ok := s.cells[id]; !ok {
					s.cells[id] = v
				}
			}
			for _, f := range pc.pc[np:] {
				if f.def {
					s.define(f.t)
				}
			}
			parts = append(parts, x.applyClosure(s, l1, cl.P3, lenv).t.s)
		}
		return and(parts...)
	}
}

// ownFootprint checks `own-modifies`: every location that the function itself may write (the effects of its
// callbacks under contract left out) is listed. The write set is the static over-approximation that loop havoc uses.
func (x *ctx) ownFootprint(st *state, fr *frame, con *Contract, penv envFn) {
	ms := &modSet{skipCb: true, st: st, keys: map[string]bool{}, cells: map[int]bool{}, rows: map[string][]ssa.Value{}, inLoop: map[*ssa.BasicBlock]bool{}}
	var scan func(fn *ssa.Function, nfr *frame)
	scan = func(fn *ssa.Function, nfr *frame) {
		for _, blk := range fn.Blocks {
			for _, in := range blk.Instrs {
				x.instrMods(nfr, in, ms, 0)
			}
		}
		for _, af := range fn.AnonFuncs {
			scan(af, &frame{fn: af, regs: map[ssa.Value]val{}, con: nil})
		}
	}
	scan(x.fn, fr)
	whole := map[string]bool{}
	rows := map[string][]string{}
	allowAll := false
	for _, mi := range con.OwnMods {
		switch mi.Kind {
		case "whole":
			if mi.Type == "*" {
				allowAll = true
			} else if mi.Field == "*" {
				whole[mi.Type+".*"] = true
			} else if mi.Type == "node" {
				whole["G:"+mi.Field] = true
			} else {
				whole[mi.Type+"."+mi.Field] = true
			}
		case "ghostall":
			whole[x.ghostKey(mi.Ghost)] = true
		case "ghost":
			whole[x.ghostKey(mi.Ghost)] = true // (argument-precise ghost items are treated as the whole ghost here)
		case "wholekey":
			whole[mi.Field] = true
		case "mapof":
			f := x.synth(con, mi.ArgFns[0])
			v := x.evalSpecFn(x.pre, f, nil, x.bindArgs(f, nil, penv))
			for _, k := range []string{"G:mapN"} {
				rows[k] = append(rows[k], v.t.s)
			}
			rows["G:mapP_*"] = append(rows["G:mapP_*"], v.t.s)
			rows["G:mapV_*"] = append(rows["G:mapV_*"], v.t.s)
		case "field":
			f := x.synth(con, mi.ArgFns[0])
			v := x.evalSpecFn(x.pre, f, nil, x.bindArgs(f, nil, penv))
			bt := x.modBaseType(f)
			if x.isNodeIface(bt) {
				rows["G:"+mi.Field] = append(rows["G:"+mi.Field], v.t.s)
			} else {
				sub := &modSet{keys: map[string]bool{}, cells: map[int]bool{}}
				if stT, ok := deref(bt).Underlying().(*types.Struct); ok {
					for i := 0; i < stT.NumFields(); i++ {
						if stT.Field(i).Name() == mi.Field {
							x.addLeafKeys(structName(deref(bt))+"."+mi.Field, stT.Field(i).Type(), sub)
						}
					}
				}
				for k := range sub.keys {
					rows[k] = append(rows[k], v.t.s)
				}
			}
		case "elems", "elem":
			f := x.synth(con, mi.ArgFns[0])
			bt := x.modBaseType(f)
			if sl, ok := bt.Underlying().(*types.Slice); ok {
				whole[x.elemKey(sl.Elem())] = true
			}
		}
	}
	if allowAll {
		return
	}
	covered := func(k string) bool {
		if whole[k] || frameExempt(k) {
			return true
		}
		if j := strings.Index(k, "."); j > 0 && whole[k[:j]+".*"] {
			return true
		}
		return strings.HasPrefix(k, "G:") && whole["node.*"]
	}
	bad := map[string]string{}
	if ms.all {
		bad["*"] = "a callee in the body modifies everything"
	}
	for k := range ms.keys {
		k = x.akey(k)
		if !covered(k) {
			bad[k] = "written (at a location that is not a parameter's own row)"
		}
	}
	for _, lz := range ms.lazy {
		if k := x.akey(lz.key); !covered(k) {
			bad[k] = "written through a loaded base"
		}
	}
	for k, bases := range ms.rows {
		k = x.akey(k)
		if covered(k) {
			continue
		}
		allowed := append([]string(nil), rows[k]...)
		if strings.HasPrefix(k, "G:mapP_") {
			allowed = append(allowed, rows["G:mapP_*"]...)
		}
		if strings.HasPrefix(k, "G:mapV_") {
			allowed = append(allowed, rows["G:mapV_*"]...)
		}
		for _, bv := range bases {
			ok := false
			if p := x.paramOf(bv); p != nil {
				if pv, have := fr.regs[p]; have && pv.t.s != "" {
					for _, a := range allowed {
						if a == pv.t.s {
							ok = true
						}
					}
				}
			}
			if !ok {
				bad[k] = "row of " + bv.Name() + " written"
			}
		}
	}
	var ks []string
	for k := range bad {
		ks = append(ks, k)
	}
	sort.Strings(ks)
	for _, k := range ks {
		x.oblige(st, "own-frame", k, "", "false", "own-modifies does not list this location: "+bad[k])
	}
	if len(ks) == 0 {
		x.oblige(st, "own-frame", "", "", "true", "static write set of the function (callbacks left out) is covered by own-modifies")
	}
}

// paramOf resolves an SSA value to the parameter of the verified function that it certainly denotes: the parameter
// itself, or a load of the variable it was spilled to (a captured parameter) provided that variable is assigned once.
func (x *ctx) paramOf(v ssa.Value) *ssa.Parameter {
	switch u := v.(type) {
	case *ssa.Parameter:
		if u.Parent() == x.fn {
			return u
		}
	case *ssa.UnOp:
		if u.Op != token.MUL {
			return nil
		}
		return x.spilledParam(u.X)
	}
	return nil
}

// spilledParam: addr is the address of a variable (an Alloc of the verified function, or a free variable of one of its
// closures bound to such an Alloc) whose only assignment stores a parameter of the verified function.
func (x *ctx) spilledParam(addr ssa.Value) *ssa.Parameter {
	switch a := addr.(type) {
	case *ssa.Alloc:
		if a.Parent() != x.fn || a.Referrers() == nil {
			return nil
		}
		var p *ssa.Parameter
		stores := 0
		for _, r := range *a.Referrers() {
			if st, ok := r.(*ssa.Store); ok && st.Addr == a {
				stores++
				p, _ = st.Val.(*ssa.Parameter)
			}
		}
		if stores == 1 && p != nil && p.Parent() == x.fn && !x.storedInClosures(a) {
			return p
		}
	case *ssa.FreeVar:
		fn := a.Parent()
		par := fn.Parent()
		if par == nil {
			return nil
		}
		idx := -1
		for i, fv := range fn.FreeVars {
			if fv == a {
				idx = i
			}
		}
		for _, blk := range par.Blocks {
			for _, in := range blk.Instrs {
				if mc, ok := in.(*ssa.MakeClosure); ok && mc.Fn == fn && idx >= 0 && idx < len(mc.Bindings) {
					return x.spilledParam(mc.Bindings[idx])
				}
			}
		}
	}
	return nil
}

// storedInClosures: some closure (transitively) of the verified function assigns the variable behind alloc.
func (x *ctx) storedInClosures(a *ssa.Alloc) bool {
	var visit func(fn *ssa.Function, addr ssa.Value) bool
	visit = func(fn *ssa.Function, addr ssa.Value) bool {
		for _, blk := range fn.Blocks {
			for _, in := range blk.Instrs {
				if mc, ok := in.(*ssa.MakeClosure); ok {
					cf := mc.Fn.(*ssa.Function)
					for i, bnd := range mc.Bindings {
						if bnd == addr && i < len(cf.FreeVars) {
							fv := cf.FreeVars[i]
							if fv.Referrers() != nil {
								for _, r := range *fv.Referrers() {
									if st, ok := r.(*ssa.Store); ok && st.Addr == fv {
										return true
									}
								}
							}
							if visit(cf, fv) {
								return true
							}
						}
					}
				}
			}
		}
		return false
	}
	return visit(x.fn, a)
}

func hasFuncParam(fn *ssa.Function) bool {
	if fn == nil {
		return false
	}
	for _, p := range fn.Params {
		if _, ok := p.Type().Underlying().(*types.Signature); ok {
			return true
		}
	}
	return false
}

// splitEq splits "(= A B)" into its two top-level arguments.
func splitEq(t string) (string, string, bool) {
	if !strings.HasPrefix(t, "(= ") || !strings.HasSuffix(t, ")") {
		return "", "", false
	}
	body := t[3 : len(t)-1]
	depth := 0
	for i := 0; i < len(body); i++ {
		switch body[i] {
		case '(':
			depth++
		case ')':
			depth--
		case ' ':
			if depth == 0 {
				a, b := body[:i], body[i+1:]
				if !balanced(a) || !balanced(b) || strings.ContainsAny(b[:1], " ") {
					return "", "", false
				}
				// exactly two arguments
				d2 := 0
				for j := 0; j < len(b); j++ {
					switch b[j] {
					case '(':
						d2++
					case ')':
						d2--
					case ' ':
						if d2 == 0 {
							return "", "", false
						}
					}
				}
				return a, b, true
			}
		}
	}
	return "", "", false
}

// siteAssumes applies the `site NAME: assume` clauses after a call of NAME (the local that receives the result is bound).
func (x *ctx) siteAssumes(st *state, fr *frame, b *ssa.BasicBlock, in *ssa.Call) {
	c := in.Common()
	name := ""
	switch {
	case c.IsInvoke():
		name = c.Method.Name()
	case c.StaticCallee() != nil:
		name = c.StaticCallee().Name()
	default:
		name = sourceName(c.Value)
	}
	if j := strings.Index(name, "["); j > 0 {
		name = name[:j]
	}
	cls := x.con.SiteAssumes[name]
	if len(cls) == 0 {
		return
	}
	if x.siteHit == nil {
		x.siteHit = map[string]bool{}
	}
	x.siteHit["assume:"+name] = true
	penv := func(n string, t types.Type) (val, bool) { v, ok := x.params[n]; return v, ok }
	// the operands of the call are available as arg0, arg1, ... (declared with `var argN T`), as for site assertions
	var sargs []val
	if c.IsInvoke() {
		sargs = append(sargs, x.get(fr, st, c.Value))
	}
	for _, a := range c.Args {
		sargs = append(sargs, x.get(fr, st, a))
	}
	lenv := func(n string, t types.Type) (val, bool) {
		if strings.HasPrefix(n, "arg") {
			if k, err := strconv.Atoi(n[3:]); err == nil && k < len(sargs) {
				return sargs[k], true
			}
		}
		if v, ok := x.localByName(st, fr, b, n); ok {
			return v, true
		}
		return penv(n, t)
	}
	for _, cl := range cls {
		pc := x.pre.clone()
		np := len(pc.pc)
		saveOv := x.skolemOv
		ov := map[string]val{}
		for k, v := range saveOv {
			ov[k] = v
		}
		for _, vd := range x.con.Vars {
			if strings.HasPrefix(vd.Name, "arg") {
				if k, err := strconv.Atoi(vd.Name[3:]); err == nil && k < len(sargs) {
					ov[vd.Name] = sargs[k]
				}
			}
		}
		x.skolemOv = ov
		l1 := x.clauseL1(pc, x.con, cl, penv)
		x.skolemOv = saveOv
		for id, v := range pc.cells {
			if _, ok := st.cells[id]; !ok {
				st.cells[id] = v
			}
		}
		for _, f := range pc.pc[np:] {
			if f.def {
				st.define(f.t)
			}
		}
		g := x.applyClosure(st, l1, cl.P3, lenv)
		x.assumed[fmt.Sprintf("assumed about the result of %s in %s [%s]: %s", name, x.con.Target, cl.Tag(), cl.Expr)] = true
		st.assume(g.t.s)
	}
}

// rangeKeyPhi: name is the key variable of the range-over-slice loop whose header is b (its debug reference points to
// rangeindex + 1); returns the rangeindex phi.
func rangeKeyPhi(fn *ssa.Function, b *ssa.BasicBlock, name string) *ssa.Phi {
	for _, blk := range fn.Blocks {
		for _, in := range blk.Instrs {
			d, ok := in.(*ssa.DebugRef)
			if !ok || d.Object() == nil || d.Object().Name() != name {
				continue
			}
			bo, ok := d.X.(*ssa.BinOp)
			if !ok || bo.Op != token.ADD || bo.Block() != b {
				continue
			}
			ph, ok := bo.X.(*ssa.Phi)
			if !ok || ph.Comment != "rangeindex" || ph.Block() != b {
				continue
			}
			if c, ok := bo.Y.(*ssa.Const); ok && c.Int64() == 1 {
				return ph
			}
		}
	}
	return nil
}
