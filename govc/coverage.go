package main

// `govc coverage`: every function of the repository (tests, generated node variants and contract files left out)
// with its verification status: verified (own contract), assumed (assumed contract), inlined (no contract, reached from
// a verified function through calls, closures or function values, so its body is executed symbolically there),
// iface (node variant methods checked against the interface contract) or none (outside every check).

import (
	"fmt"
	"go/token"
	"go/types"
	"path/filepath"
	"sort"
	"strings"

	"golang.org/x/tools/go/ssa"
)

func coverageCmd(w *world) {
	var verified []*Contract
	for _, c := range w.all {
		verified = append(verified, c)
	}
	closure := w.relyClosure(verified)
	_ = closure
	// functions reached (inlined) from verified functions
	reached := map[*ssa.Function]bool{}
	{
		var queue []*ssa.Function
		push := func(f *ssa.Function) {
			if f == nil {
				return
			}
			if o := f.Origin(); o != nil {
				f = o
			}
			if !reached[f] {
				reached[f] = true
				queue = append(queue, f)
			}
		}
		for _, c := range w.all {
			if c.Kind != "iface" && !c.Flags["assumed"] {
				push(w.ssaFunc(c))
			}
		}
		for len(queue) > 0 {
			f := queue[0]
			queue = queue[1:]
			for _, af := range f.AnonFuncs {
				push(af)
			}
			for _, b := range f.Blocks {
				for _, in := range b.Instrs {
					visit := func(g *ssa.Function) {
						if g == nil {
							return
						}
						if g.Synthetic != "" && strings.HasPrefix(g.Synthetic, "bound method wrapper") {
							if fo, ok := g.Object().(*types.Func); ok {
								m := w.prog.FuncValue(fo)
								if m == nil {
									m = w.prog.FuncValue(fo.Origin())
								}
								g = m
							}
						}
						if g == nil {
							return
						}
						if o := g.Origin(); o != nil {
							g = o
						}
						if !w.isRepoPkg(g) {
							return
						}
						if g.Parent() == nil {
							if c := w.contracts[fnKey(g)]; c != nil {
								return // through its contract
							}
						}
						push(g)
					}
					if c, ok := in.(ssa.CallInstruction); ok {
						if sc := c.Common().StaticCallee(); sc != nil {
							visit(sc)
						}
					}
					for _, op := range in.Operands(nil) {
						if op == nil || *op == nil {
							continue
						}
						switch v := (*op).(type) {
						case *ssa.Function:
							visit(v)
						case *ssa.MakeClosure:
							if cf, ok := v.Fn.(*ssa.Function); ok {
								visit(cf)
							}
						}
					}
				}
			}
		}
	}
	type row struct{ file, name, status string }
	var rows []row
	count := map[string]int{}
	for _, pkg := range w.prog.AllPackages() {
		if !strings.HasPrefix(pkg.Pkg.Path(), modulePath) {
			continue
		}
		var fns []*ssa.Function
		for _, m := range pkg.Members {
			switch v := m.(type) {
			case *ssa.Function:
				fns = append(fns, v)
			case *ssa.Type:
				if nt, ok := v.Type().(*types.Named); ok {
					for i := 0; i < nt.NumMethods(); i++ {
						if f := w.prog.FuncValue(nt.Method(i)); f != nil {
							fns = append(fns, f)
						}
					}
				}
			}
		}
		seen := map[*ssa.Function]bool{}
		for _, f := range fns {
			if o := f.Origin(); o != nil {
				f = o
			}
			if seen[f] || f.Synthetic != "" || f.Pos() == token.NoPos {
				continue
			}
			seen[f] = true
			pos := w.prog.Fset.Position(f.Pos())
			base := filepath.Base(pos.Filename)
			if strings.HasSuffix(base, "_test.go") || base == "verif_contracts.go" || base == "zz_verif_synth.go" || strings.Contains(pos.Filename, "zvc_") || strings.HasPrefix(f.Name(), "Zvc_") {
				continue
			}
			rel := strings.TrimPrefix(pos.Filename, w.repo+"/")
			status := "none"
			if c := w.contracts[fnKey(f)]; c != nil {
				if c.Flags["assumed"] {
					status = "assumed"
				} else if c.Flags["bounded"] {
					status = "bounded"
				} else {
					status = "verified"
				}
			} else if reached[f] {
				status = "inlined"
			} else if strings.Contains(rel, "internal/generated/node/") && f.Signature.Recv() != nil {
				if w.ifaceContract(nodeIfaceOf(w, f), f.Name()) != nil {
					status = "iface"
				}
			}
			rows = append(rows, row{rel, f.String(), status})
			count[status]++
		}
	}
	sort.Slice(rows, func(i, j int) bool {
		if rows[i].file != rows[j].file {
			return rows[i].file < rows[j].file
		}
		return rows[i].name < rows[j].name
	})
	for _, r := range rows {
		fmt.Printf("%-9s %-44s %s\n", r.status, r.file, r.name)
	}
	fmt.Println(count)
}

func nodeIfaceOf(w *world, f *ssa.Function) types.Type {
	for _, pkg := range w.prog.AllPackages() {
		if strings.HasSuffix(pkg.Pkg.Path(), "internal/generated/node") {
			if m, ok := pkg.Members["Node"].(*ssa.Type); ok {
				return m.Type()
			}
		}
	}
	return nil
}
