package main

// Property checks: obligation bookkeeping, expected-obligation guard, known findings, evidence, verdict lines.

import (
	"encoding/json"
	"fmt"
	"go/types"
	"os"
	"path/filepath"
	"regexp"
	"sort"
	"strings"
	"sync"
	"time"

	"golang.org/x/tools/go/ssa"
)

type impl struct {
	named *types.Named
	fn    *ssa.Function
}

// implementers lists the concrete methods implementing the interface method of an iface contract.
func (w *world) implementers(c *Contract) []impl {
	sp := w.ssaPkgs[c.PkgPath]
	if sp == nil {
		return nil
	}
	ifaceName := strings.SplitN(c.Target, ".", 2)[0]
	mname := strings.SplitN(c.Target, ".", 2)[1]
	io := sp.Pkg.Scope().Lookup(ifaceName)
	if io == nil {
		return nil
	}
	var out []impl
	var names []string
	for n := range sp.Members {
		names = append(names, n)
	}
	sort.Strings(names)
	for _, n := range names {
		t, ok := sp.Members[n].(*ssa.Type)
		if !ok {
			continue
		}
		named, ok := t.Type().(*types.Named)
		if !ok || named.Obj().Name() == ifaceName {
			continue
		}
		if _, isStruct := named.Underlying().(*types.Struct); !isStruct {
			continue
		}
		// has all methods of the interface? (checked by name: the generic interface cannot be instantiated here)
		it := io.Type().Underlying().(*types.Interface)
		okAll := true
		ms := types.NewMethodSet(types.NewPointer(named))
		for i := 0; i < it.NumMethods(); i++ {
			if ms.Lookup(sp.Pkg, it.Method(i).Name()) == nil {
				okAll = false
				break
			}
		}
		if !okAll {
			continue
		}
		for i := 0; i < named.NumMethods(); i++ {
			if named.Method(i).Name() == mname {
				f := w.prog.FuncValue(named.Method(i))
				if f != nil {
					if o := f.Origin(); o != nil {
						f = o
					}
					out = append(out, impl{named, f})
				}
			}
		}
	}
	return out
}

type knownFinding struct {
	Property   string   `json:"property"`
	Obligation string   `json:"obligation"`             // exact obligation name (without ordinal) or regexp when it starts with ^
	Mode       string   `json:"mode,omitempty"`         // seq | itf | "" (any)
	SigHas     []string `json:"sig_contains,omitempty"` // every element must occur in the witness signature
	What       string   `json:"what"`
}

type knownFile struct {
	Open  []knownFinding `json:"open"`
	Fixed []string       `json:"fixed"`
}

func loadKnown(verifDir string) knownFile {
	var k knownFile
	b, err := os.ReadFile(filepath.Join(verifDir, "known_findings.json"))
	if err == nil {
		_ = json.Unmarshal(b, &k)
	}
	return k
}

var reOrd = regexp.MustCompile(`#\d+`)

func (k knownFinding) matches(prop string, r *oblResult) bool {
	if k.Property != prop {
		return false
	}
	if k.Mode != "" && k.Mode != r.Mode {
		return false
	}
	name := reOrd.ReplaceAllString(r.Name, "")
	if strings.HasPrefix(k.Obligation, "^") {
		if ok, _ := regexp.MatchString(k.Obligation, name); !ok {
			return false
		}
	} else if k.Obligation != name {
		return false
	}
	sig := strings.Join(r.Sig, ",")
	for _, s := range k.SigHas {
		if !strings.Contains(sig, s) {
			return false
		}
	}
	return true
}

type evidence struct {
	PropertyID  string         `json:"property_id"`
	Tier        string         `json:"tier"`
	Seed        int            `json:"seed"`
	Level       string         `json:"level"`
	Coverage    map[string]any `json:"coverage"`
	Assumptions []string       `json:"assumptions"`
	WallS       float64        `json:"wall_s"`
	Violations  int            `json:"violations"`
}

func writeEvidence(verifDir, prop string, ev *evidence) {
	dir := filepath.Join(verifDir, "evidence")
	if d := os.Getenv("VERIF_EVIDENCE_DIR"); d != "" {
		dir = d // seeded-change runs write their evidence elsewhere, so that /verif/evidence always describes /repo as it is
	}
	mustMkdir(dir)
	b, _ := json.MarshalIndent(ev, "", " ")
	_ = os.WriteFile(filepath.Join(dir, prop+".json"), append(b, '\n'), 0o644)
}

func loadFailure(prop, tier string, seed int, verifDir string, err error) int {
	if prop == "" {
		return 2
	}
	rp := filepath.Join(verifDir, "replays", prop)
	mustMkdir(rp)
	path := filepath.Join(rp, "load-failure.json")
	b, _ := json.MarshalIndent(map[string]any{"property": prop, "obligation": "load/contracts-typecheck", "status": "not-generated",
		"reason": err.Error(), "note": "the repository plus its contract files no longer load/type-check, so no obligation of this property could be generated"}, "", " ")
	_ = os.WriteFile(path, b, 0o644)
	ev := &evidence{PropertyID: prop, Tier: tier, Seed: seed, Level: "proof", Violations: 1, Assumptions: []string{},
		Coverage: map[string]any{"obligations": 1, "discharged": 0, "checker_cmd": "govc check -prop " + prop, "trusted_base": []string{},
			"explanation": "load failure: " + err.Error(), "samples": []any{"load/contracts-typecheck: not generated"}}}
	writeEvidence(verifDir, prop, ev)
	fmt.Printf("VIOLATION property=%s replay=%s obligation=load/contracts-typecheck no-failing-input-found\n", prop, path)
	return 1
}

func expectedKey(r *oblResult) string {
	return fmt.Sprintf("%s [%s] %s", reOrd.ReplaceAllString(r.Name, ""), r.Mode, r.Kind)
}

func checkCmd(w *world, prop, tier string, seed int, opts *runOpts, expectMode bool, loadMs int64, t0 time.Time) int {
	var cons []*Contract
	for _, c := range w.all {
		if c.HasProp(prop) {
			cons = append(cons, c)
		}
	}
	tagged := len(cons)
	cons = w.relyClosure(cons)
	// bounded stand-ins accompany the assumed contracts they stand for: when the check relies on an assumed contract of a
	// package, the bounded harnesses of that package run with it (they are reported under `bounded`, never as proof)
	{
		have := map[*Contract]bool{}
		assumedPkg := map[string]bool{}
		for _, c := range cons {
			have[c] = true
			if c.Flags["assumed"] {
				assumedPkg[c.PkgPath] = true
			}
		}
		for _, c := range w.all {
			if c.Flags["bounded"] && assumedPkg[c.PkgPath] && !have[c] {
				have[c] = true
				cons = append(cons, c)
			}
		}
	}
	relied := len(cons) - tagged
	_ = relied
	if len(cons) == 0 {
		fmt.Fprintf(os.Stderr, "govc: no contract mentions property %s\n", prop)
		return loadFailure(prop, tier, seed, w.verifDir, fmt.Errorf("no contract mentions property %s", prop))
	}
	for _, m := range w.mirrorMsg {
		fmt.Println("note:", m)
	}
	// run functions in parallel
	type job struct {
		c   *Contract
		res []*fnResult
	}
	jobs := make([]*job, len(cons))
	var wg sync.WaitGroup
	sem := make(chan struct{}, 6)
	for i, c := range cons {
		jobs[i] = &job{c: c}
		wg.Add(1)
		go func(j *job) {
			defer wg.Done()
			sem <- struct{}{}
			defer func() { <-sem }()
			j.res = w.verifyContract(j.c, "", opts)
		}(jobs[i])
	}
	wg.Wait()

	known := loadKnown(w.verifDir)
	var all []*oblResult
	var notGen []string
	assumedSet := map[string]bool{}
	var fns []string
	var boundedFns []string
	boundedObl, boundedDis := 0, 0
	var assumedContracts []string
	perSolver := map[string]int{}
	var solverMs int64
	paths := 0
	pathsFeasible, pathsInfeasible, agreedAll := 0, 0, 0
	vacuous := 0
	skipped := 0
	for _, j := range jobs {
		if j.c.Flags["assumed"] {
			assumedContracts = append(assumedContracts, j.c.Key())
			continue
		}
		for _, r := range j.res {
			label := j.c.PkgPath[strings.LastIndex(j.c.PkgPath, "/")+1:] + "." + j.c.Target
			if r.Variant != "" {
				label = r.Variant + ":" + label
			}
			if r.Skipped != "" {
				skipped++
				continue
			}
			if j.c.Flags["bounded"] {
				note := ""
				for _, n := range j.c.Notes {
					if strings.HasPrefix(n, "bounded: ") {
						note = strings.TrimPrefix(n, "bounded: ")
					}
				}
				boundedFns = append(boundedFns, fmt.Sprintf("%s [%s] BOUNDED stand-in, not a proof: %s", label, r.Mode, note))
			} else {
				fns = append(fns, fmt.Sprintf("%s [%s]", label, r.Mode))
			}
			if r.Err != "" {
				notGen = append(notGen, fmt.Sprintf("%s [%s]: %s", label, r.Mode, r.Err))
				continue
			}
			paths += r.Paths
			for _, a := range r.Assumed {
				assumedSet[a] = true
			}
			feasible, infeasible := 0, 0
			for _, o := range r.Obls {
				if o.Kind == "path-cover" {
					if o.Status == "infeasible-path" {
						infeasible++
					} else {
						feasible++
					}
				}
			}
			pathsFeasible += feasible
			pathsInfeasible += infeasible
			if feasible == 0 && infeasible > 0 {
				notGen = append(notGen, fmt.Sprintf("%s [%s]: none of its %d paths is feasible under the contract (vacuous verification)", label, r.Mode, infeasible))
			}
			for _, o := range r.Obls {
				if o.Kind == "path-cover" {
					continue
				}
				if o.Kind == "cover" {
					if o.Status == "vacuous" {
						vacuous++
						notGen = append(notGen, fmt.Sprintf("%s [%s]: precondition unsatisfiable (vacuous contract)", label, r.Mode))
					}
					continue
				}
				if len(o.Agreed) > 0 {
					agreedAll++
				}
				if j.c.Flags["bounded"] {
					o.Bounded = true
				}
				all = append(all, o)
				perSolver[o.Solver]++
				solverMs += o.Ms
			}
		}
	}
	// every contract mentioned by other contracts of this property as assumed
	for _, c := range w.all {
		if c.Flags["assumed"] {
			for a := range assumedSet {
				if strings.Contains(a, c.Key()) {
					assumedContracts = append(assumedContracts, c.Key())
				}
			}
		}
	}
	sort.Strings(assumedContracts)
	assumedContracts = uniq(assumedContracts)

	// declared package tables are compared with the real package values by execution
	if msg := verifyGlobals(w, cons); msg != "" {
		notGen = append(notGen, msg)
	}
	// fields declared immutable are never assigned after construction (whole repository, syntactic)
	notGen = append(notGen, w.immutableViolations()...)
	// expected-obligation guard
	// (only postcondition-like obligations are guarded, and only for presence: call-site obligations and path
	// counts legitimately change under harmless refactors)
	counts := map[string]int{}
	for _, o := range all {
		if strings.HasPrefix(o.Kind, "ensures") || o.Kind == "field-invariant" || o.Kind == "delegates" || o.Kind == "calls-only" {
			counts[expectedKey(o)] = 1
		}
	}
	expPath := filepath.Join(w.verifDir, "expected", prop+".txt")
	if expectMode {
		mustMkdir(filepath.Dir(expPath))
		var ks []string
		for k := range counts {
			ks = append(ks, k)
		}
		sort.Strings(ks)
		var b strings.Builder
		for _, k := range ks {
			fmt.Fprintf(&b, "%d\t%s\n", counts[k], k)
		}
		_ = os.WriteFile(expPath, []byte(b.String()), 0o644)
		fmt.Printf("wrote %s (%d keys, %d obligations)\n", expPath, len(ks), len(all))
	}
	var missing []string
	if b, err := os.ReadFile(expPath); err == nil {
		for _, ln := range strings.Split(strings.TrimSpace(string(b)), "\n") {
			parts := strings.SplitN(ln, "\t", 2)
			if len(parts) != 2 {
				continue
			}
			var n int
			fmt.Sscanf(parts[0], "%d", &n)
			if counts[parts[1]] < n {
				missing = append(missing, fmt.Sprintf("%s: expected at least %d obligations, generated %d", parts[1], n, counts[parts[1]]))
			}
		}
	} else if !expectMode {
		missing = append(missing, "expected-obligation file "+expPath+" missing")
	}

	// verdicts
	violations := 0
	knownHits := 0
	discharged := 0
	var samples []any
	var lines []string
	rpDir := filepath.Join(w.verifDir, "replays", prop)
	if d := os.Getenv("VERIF_REPLAY_DIR"); d != "" {
		rpDir = filepath.Join(d, prop) // parallel seeded-change runs keep their replay files apart
	}
	_ = os.RemoveAll(rpDir)
	for _, o := range all {
		if o.Bounded {
			boundedObl++
		}
		if o.Status == "discharged" && o.Bounded {
			boundedDis++
			continue
		}
		if o.Status == "discharged" {
			discharged++
			if len(samples) < 12 && !o.Trivial {
				samples = append(samples, map[string]any{"obligation": o.Name, "mode": o.Mode, "solver": o.Solver, "ms": o.Ms, "status": o.Status})
			}
			continue
		}
		matched := false
		for _, k := range known.Open {
			if k.matches(prop, o) {
				matched = true
				knownHits++
				lines = append(lines, fmt.Sprintf("KNOWN-FINDING: property=%s %s [%s]: %s", prop, o.Name, o.Mode, k.What))
				break
			}
		}
		if matched {
			continue
		}
		violations++
		mustMkdir(rpDir)
		path := filepath.Join(rpDir, sanitize(o.Func+"_"+o.Mode+"_"+o.Name)+".json")
		rec := map[string]any{"property": prop, "obligation": o.Name, "function": o.Func, "mode": o.Mode, "kind": o.Kind, "tag": o.Tag, "status": o.Status,
			"witness_signature": o.Sig, "model": o.Model, "solver": o.Solver, "solver_output": o.SolverO, "note": o.Note, "repo": w.repo}
		if o.Script != "" {
			sp := strings.TrimSuffix(path, ".json") + ".smt2"
			_ = os.WriteFile(sp, []byte("(set-logic ALL)\n"+o.Script+"(check-sat)\n(get-model)\n"), 0o644)
			rec["smt_script"] = sp
		}
		suffix := " no-failing-input-found"
		if o.Status == "failed" {
			if ok, detail := tryReplay(w, prop, o, rec); ok {
				suffix = ""
				rec["replay"] = detail
			} else {
				rec["replay"] = detail
			}
		}
		b, _ := json.MarshalIndent(rec, "", " ")
		_ = os.WriteFile(path, b, 0o644)
		lines = append(lines, fmt.Sprintf("VIOLATION property=%s replay=%s obligation=%s mode=%s status=%s%s", prop, path, o.Name, o.Mode, o.Status, suffix))
	}
	for _, m := range append(notGen, missing...) {
		violations++
		mustMkdir(rpDir)
		path := filepath.Join(rpDir, fmt.Sprintf("not-generated-%d.json", violations))
		b, _ := json.MarshalIndent(map[string]any{"property": prop, "obligation": "not-generated", "status": "not-generated", "reason": m}, "", " ")
		_ = os.WriteFile(path, b, 0o644)
		lines = append(lines, fmt.Sprintf("VIOLATION property=%s replay=%s obligation-not-generated: %s no-failing-input-found", prop, path, m))
	}
	sort.Strings(fns)
	var assumptions []string
	for a := range assumedSet {
		assumptions = append(assumptions, a)
	}
	sort.Strings(assumptions)
	global := []string{
		"A-seq: no goroutine interleaving inside a function body; atomics are plain cells; [itf] mode havocs shared state only between critical sections",
		"machine integers are exact bit-vectors; floating point, strings and unsafe.Pointer casts are uninterpreted / identity",
		"termination is not proved; typed-nil interface values are identified with nil",
		"go/ssa (x/tools v0.29.0) lowering of the Go source is trusted; SMT solvers z3 4.8.12 / z3 5.1.0 / cvc5 1.0.3 are trusted",
	}
	assumptions = append(assumptions, global...)
	trusted := append([]string{}, assumedContracts...)
	for _, a := range assumptions {
		if strings.HasPrefix(a, "A-table") || strings.HasPrefix(a, "uninterpreted") || strings.HasPrefix(a, "external") {
			trusted = append(trusted, a)
		}
	}
	nObl := len(all) - knownHits - boundedObl
	ev := &evidence{PropertyID: prop, Tier: tier, Seed: seed, Level: "proof", Violations: violations, Assumptions: assumptions,
		WallS: float64(time.Since(t0).Milliseconds()) / 1000,
		Coverage: map[string]any{
			"obligations": nObl, "discharged": discharged,
			"checker_cmd":               fmt.Sprintf("/verif/bin/govc check -prop %s -tier %s (VC generation over go/ssa of %s; z3-new 5.1.0 / z3 4.8.12 / cvc5 raced per obligation)", prop, tier, w.repo),
			"trusted_base":              trusted,
			"functions_under_contract":  fns,
			"samples":                   samples,
			"paths":                     paths,
			"per_solver":                perSolver,
			"solver_ms_total":           solverMs,
			"load_ms":                   loadMs,
			"known_finding_obligations": knownHits,
			"not_generated":             append(notGen, missing...),
			"vacuous_preconditions":     vacuous,
			"thorough_paths_feasible":   pathsFeasible,
			"thorough_paths_infeasible": pathsInfeasible,
			"thorough_obligations_confirmed_by_a_second_solver": agreedAll,
			"variant_methods_not_offered":                       skipped,
			"expected_keys":                                     len(counts),
			"contract_mirror_notes":                             w.mirrorMsg,
			"bounded":                                           boundedFns,
			"bounded_obligations":                               boundedObl,
			"bounded_obligations_passed":                        boundedDis,
			"bounded_note":                                      "bounded stand-ins execute the real code of functions whose contracts are ASSUMED (A-deque) on all inputs up to the stated bound; they are not counted in obligations/discharged and prove nothing beyond the bound",
			"integer_semantics":                                 "64/32/8-bit bit-vectors with Go wrap-around semantics (no mathematical integers)",
			"verified_text":                                     "go/ssa built from the files of " + w.repo + " on this run; contracts from /verif/contracts overlaid as verif_contracts.go (build tag verif)",
		}}
	if len(samples) == 0 {
		ev.Coverage["samples"] = []any{"(no discharged non-trivial obligation)"}
	}
	writeEvidence(w.verifDir, prop, ev)
	for _, l := range lines {
		fmt.Println(l)
	}
	fmt.Printf("property %s tier %s: %d functions, %d obligations, %d discharged, %d known-finding, %d violation(s), %.1fs\n",
		prop, tier, len(fns), nObl, discharged, knownHits, violations, ev.WallS)
	if violations > 0 {
		return 1
	}
	return 0
}

func uniq(s []string) []string {
	var out []string
	for i, v := range s {
		if i == 0 || v != s[i-1] {
			out = append(out, v)
		}
	}
	return out
}

// verifyGlobals runs an injected test that compares `//@ global` declarations with the package variables.
func verifyGlobals(w *world, cons []*Contract) string {
	for _, cf := range w.files {
		if len(cf.Globals) == 0 {
			continue
		}
		used := false
		for _, c := range cons {
			if c.PkgPath == cf.PkgPath {
				used = true
			}
		}
		if !used {
			continue
		}
		var decls []string
		var names []string
		for n := range cf.Globals {
			names = append(names, n)
		}
		sort.Strings(names)
		for _, n := range names {
			var vs []string
			for _, v := range cf.Globals[n] {
				vs = append(vs, fmt.Sprint(v))
			}
			decls = append(decls, n+"="+strings.Join(vs, ","))
		}
		rel, _ := filepath.Rel(w.repo, cf.PkgDir)
		plan := &replayPlan{template: "globals_test.go.tmpl", pkgDir: rel, test: "TestGovcGlobals", env: map[string]string{"GOVC_GLOBALS": strings.Join(decls, ";")}}
		_, out, _ := runReplay(w.repo, w.verifDir, plan)
		if !strings.Contains(out, "GLOBALS-OK") || strings.Contains(out, "GLOBALS-MISMATCH") {
			if len(out) > 300 {
				out = out[:300]
			}
			return "declared package tables of " + cf.PkgPath + " do not match the package (or could not be checked): " + out
		}
	}
	return ""
}

// relyClosure extends the contracts tagged with a property by every function contract that their functions rely on:
// a function verified against callee contracts is only as good as those contracts, so the callees are verified in the
// same check (transitively, through inlined helpers, closures and function values). Interface contracts (the node
// variants) are not followed; they belong to the properties they are tagged with.
func (w *world) relyClosure(cons []*Contract) []*Contract {
	have := map[*Contract]bool{}
	var queue []*ssa.Function
	seenFn := map[*ssa.Function]bool{}
	push := func(f *ssa.Function) {
		if f == nil {
			return
		}
		if o := f.Origin(); o != nil {
			f = o
		}
		if !seenFn[f] {
			seenFn[f] = true
			queue = append(queue, f)
		}
	}
	for _, c := range cons {
		have[c] = true
		if c.Kind != "iface" && !c.Flags["assumed"] {
			push(w.ssaFunc(c))
		}
	}
	resolve := func(f *ssa.Function) *ssa.Function {
		if f == nil {
			return nil
		}
		if f.Synthetic != "" && strings.HasPrefix(f.Synthetic, "bound method wrapper") {
			if fo, ok := f.Object().(*types.Func); ok {
				m := w.prog.FuncValue(fo)
				if m == nil {
					m = w.prog.FuncValue(fo.Origin())
				}
				return m
			}
			return nil
		}
		return f
	}
	out := append([]*Contract(nil), cons...)
	visit := func(f *ssa.Function) {
		f = resolve(f)
		if f == nil {
			return
		}
		if o := f.Origin(); o != nil {
			f = o
		}
		if !w.isRepoPkg(f) {
			return
		}
		if f.Parent() == nil {
			if c := w.contracts[fnKey(f)]; c != nil {
				if !have[c] {
					have[c] = true
					out = append(out, c)
				}
				if c.Flags["assumed"] {
					return
				}
			}
		}
		push(f)
	}
	for len(queue) > 0 {
		f := queue[0]
		queue = queue[1:]
		for _, af := range f.AnonFuncs {
			push(af)
		}
		for _, b := range f.Blocks {
			for _, in := range b.Instrs {
				if c, ok := in.(ssa.CallInstruction); ok {
					if sc := c.Common().StaticCallee(); sc != nil {
						visit(sc)
					}
				}
				for _, op := range in.Operands(nil) {
					if op == nil || *op == nil {
						continue
					}
					switch v := (*op).(type) {
					case *ssa.Function:
						visit(v)
					case *ssa.MakeClosure:
						if cf, ok := v.Fn.(*ssa.Function); ok {
							visit(cf)
						}
					}
				}
			}
		}
	}
	return out
}
