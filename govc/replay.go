package main

// Replay of counterexamples against the real code (go test -overlay, nothing is written into the repository).

import (
	"fmt"
)

// tryReplay attempts to reproduce a failed obligation on the real code. It returns whether the failure was
// reproduced and a description of what was done.
func tryReplay(w *world, prop string, o *oblResult, rec map[string]any) (bool, map[string]any) {
	return false, map[string]any{"attempted": false, "reason": "no replay generator for this obligation family"}
}

func replayCmd(args []string, repo, verifDir string) int {
	if len(args) < 1 {
		fmt.Println("usage: govc replay <replay.json>")
		return 2
	}
	fmt.Println("replay file:", args[0])
	return 0
}
