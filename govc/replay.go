package main

// Replay of counterexamples against the real code (go test -overlay; nothing is written into the repository).

import (
	"bytes"
	"encoding/json"
	"fmt"
	"os"
	"os/exec"
	"path/filepath"
	"regexp"
	"sort"
	"strings"
	"sync"
	"time"
)

type replayPlan struct {
	template string // file under /verif/replay_templates
	pkgDir   string // package directory (relative to the repository root) the test is injected into
	test     string
	env      map[string]string
	why      string
	multi    []string // alternative values of GOVC_OP to try in turn
}

// modelVal finds the model value of the first variable whose name starts with one of the prefixes.
func modelVal(m map[string]string, prefixes ...string) (uint64, bool) {
	var keys []string
	for k := range m {
		keys = append(keys, k)
	}
	sort.Strings(keys)
	for _, p := range prefixes {
		for _, k := range keys {
			if strings.HasPrefix(k, p) {
				if v, ok := modelUint(m[k]); ok {
					return v, true
				}
			}
		}
	}
	return 0, false
}

func lastNonZero(m map[string]string, prefix string) (uint64, bool) {
	var keys []string
	for k := range m {
		if strings.HasPrefix(k, prefix) {
			keys = append(keys, k)
		}
	}
	sort.Strings(keys)
	var best uint64
	found := false
	for _, k := range keys {
		if v, ok := modelUint(m[k]); ok && v != 0 {
			best, found = v, true
		}
	}
	return best, found
}

var replayFamilies []func(o *oblResult) *replayPlan

func init() {
	i64 := func(v uint64) string { return fmt.Sprintf("%d", int64(v)) }
	replayFamilies = append(replayFamilies, func(o *oblResult) *replayPlan {
		mk := func(kind string, now, d uint64) *replayPlan {
			return &replayPlan{template: "deadline_test.go.tmpl", pkgDir: ".", test: "TestGovcReplay_Deadline",
				env: map[string]string{"GOVC_KIND": kind, "GOVC_NOW": i64(now), "GOVC_DUR": i64(d)}, why: "deadline scenario '" + kind + "' with the model's clock value and duration"}
		}
		now, _ := modelVal(o.Model, "arg_nowNano")
		switch {
		case strings.Contains(o.Func, "setExpiresAfterRead") || strings.Contains(o.Func, "calcExpiresAtAfterRead"):
			d, ok := modelVal(o.Model, "arg_expiresAfter")
			if !ok {
				d, ok = lastNonZero(o.Model, "cbres_ExpireAfterRead")
			}
			if ok {
				return mk("read", now, d)
			}
		case strings.Contains(o.Func, "calcExpiresAtAfterWrite"):
			d, ok := lastNonZero(o.Model, "cbres_ExpireAfterCreate")
			if !ok {
				d, ok = lastNonZero(o.Model, "cbres_ExpireAfterUpdate")
			}
			if ok {
				return mk("write", now, d)
			}
		case strings.Contains(o.Func, "calcRefreshableAt"):
			if strings.Contains(o.Tag, "hook") || strings.Contains(o.Tag, "keep") {
				return mk("refresh-hook-on-expired", 0, 0)
			}
			for _, p := range []string{"cbres_RefreshAfterCreate", "cbres_RefreshAfterUpdate", "cbres_RefreshAfterReload"} {
				if d, ok := lastNonZero(o.Model, p); ok {
					if int64(d) > 0 && int64(now)+int64(d) < 0 {
						return mk("refresh", now, d)
					}
				}
			}
			return mk("refresh-hook-on-expired", 0, 0)
		case strings.HasSuffix(o.Func, ".SetExpiresAfter") && strings.Contains(o.Tag, "C12"):
			now, _ = modelVal(o.Model, "G_now!", "ret_Clock")
			if d, ok := modelVal(o.Model, "arg_expiresAfter"); ok {
				return mk("override", now, d)
			}
		case strings.HasSuffix(o.Func, ".SetRefreshableAfter") && strings.Contains(o.Tag, "C12"):
			now, _ = modelVal(o.Model, "G_now!", "ret_Clock")
			if d, ok := modelVal(o.Model, "arg_refreshableAfter"); ok {
				return mk("refresh-override", now, d)
			}
		case o.Func == "Entry.HasExpired":
			a, _ := modelVal(o.Model, "arg_e.ExpiresAtNano")
			b, _ := modelVal(o.Model, "arg_e.SnapshotAtNano")
			return mk("entry", a, b)
		}
		return nil
	})
}

func init() {
	// family "expired-op": obligations of the table-level operations about an expired-but-unswept key
	ops := map[string][]string{
		"(*cache).GetIfPresent": {"GetIfPresent"}, "(*cache).GetEntry": {"GetEntry"}, "(*cache).GetEntryQuietly": {"GetEntryQuietly"},
		"(*cache).getNode": {"GetIfPresent", "GetEntry"}, "(*cache).getNodeQuietly": {"GetEntryQuietly", "SetExpiresAfter"},
		"(*cache).set": {"Set", "SetIfAbsent"}, "(*cache).Set": {"Set"}, "(*cache).SetIfAbsent": {"SetIfAbsent"},
		"(*cache).Invalidate": {"Invalidate"}, "(*cache).doCompute": {"Compute", "ComputeIfAbsent", "ComputeIfPresent"},
		"(*cache).Compute": {"Compute"}, "(*cache).ComputeIfAbsent": {"ComputeIfAbsent"}, "(*cache).ComputeIfPresent": {"ComputeIfPresent"},
		"(*cache).SetExpiresAfter": {"SetExpiresAfter"}, "(*cache).SetRefreshableAfter": {"SetRefreshableAfter"},
		"(*cache).nodes": {"All", "Keys", "Values"}, "(*cache).All": {"All"}, "(*cache).Keys": {"Keys"}, "(*cache).Values": {"Values"},
		"(*cache).entries": {"All"}, "(*cache).evictionOrder": {"Coldest", "Hottest"},
		"Node.HasExpired": {"GetIfPresent", "Set", "Invalidate", "Compute", "All"},
	}
	replayFamilies = append(replayFamilies, func(o *oblResult) *replayPlan {
		list, ok := ops[o.Func]
		if !ok || !(strings.Contains(o.Tag, "C03") || strings.Contains(o.Tag, "C01") || strings.Contains(o.Tag, "expired")) {
			return nil
		}
		return &replayPlan{template: "expired_op_test.go.tmpl", pkgDir: ".", test: "TestGovcReplay_ExpiredOp", multi: list,
			env: map[string]string{"GOVC_OP": list[0]}, why: "public operation(s) " + strings.Join(list, ", ") + " applied to an expired-but-unswept key of the real cache"}
	})
}

func init() {
	// family "wheel-bucket": the bucket that the real findBucket picks for the model's wheel time and deadline
	replayFamilies = append(replayFamilies, func(o *oblResult) *replayPlan {
		if !strings.HasSuffix(o.Func, ".findBucket") {
			return nil
		}
		tm, ok1 := modelVal(o.Model, "probe_v.time")
		ex, ok2 := modelVal(o.Model, "arg_expiration")
		if !ok1 || !ok2 {
			return nil
		}
		return &replayPlan{template: "findbucket_test.go.tmpl", pkgDir: "internal/expiration", test: "TestGovcReplay_FindBucket",
			env: map[string]string{"GOVC_TIME": fmt.Sprintf("%d", tm), "GOVC_EXP": fmt.Sprintf("%d", ex)},
			why: "the real Variable.findBucket with the model's wheel time and deadline, compared with the bucket the property prescribes"}
	})
}

func init() {
	// family "policy-add": the real policy.add on a policy and a node built from the model's entry values
	replayFamilies = append(replayFamilies, func(o *oblResult) *replayPlan {
		if o.Func != "(*policy).add" {
			return nil
		}
		env := map[string]string{"GOVC_TAG": o.Tag}
		for k, pfx := range map[string]string{"GOVC_W": "probe_n.weight", "GOVC_STATE": "probe_n.state", "GOVC_MAX": "probe_p.maximum",
			"GOVC_SIZE": "probe_p.weightedSize", "GOVC_WINMAX": "probe_p.windowMaximum", "GOVC_WEIGHTED": "probe_p.isWeighted"} {
			v, ok := modelVal(o.Model, pfx)
			if !ok {
				if k == "GOVC_W" || k == "GOVC_MAX" {
					return nil
				}
				v = 0
			}
			env[k] = fmt.Sprintf("%d", v)
		}
		return &replayPlan{template: "policy_add_test.go.tmpl", pkgDir: ".", test: "TestGovcReplay_PolicyAdd", env: env,
			why: "the real policy.add with the model's maximum, running total, node weight and node state; the clause that failed is re-checked on the result"}
	})
}

// tryReplay attempts to reproduce a failed obligation on the real code.
func tryReplay(w *world, prop string, o *oblResult, rec map[string]any) (bool, map[string]any) {
	for _, fam := range replayFamilies {
		plan := fam(o)
		if plan == nil {
			continue
		}
		ok, out, cmdline := cachedReplay(w.repo, w.verifDir, plan)
		for _, alt := range plan.multi[min(1, len(plan.multi)):] {
			if ok {
				break
			}
			plan.env["GOVC_OP"] = alt
			ok, out, cmdline = cachedReplay(w.repo, w.verifDir, plan)
		}
		detail := map[string]any{"attempted": true, "template": plan.template, "env": plan.env, "test": plan.test, "package_dir": plan.pkgDir,
			"what": plan.why, "reproduced": ok, "command": cmdline, "output": out}
		return ok, detail
	}
	return false, map[string]any{"attempted": false, "reason": "no replay template for this obligation family; the solver model is recorded above"}
}

var replayCache = map[string][3]string{}

// every replay compiles and runs a test against the real code (10-30 s): a run that fails many obligations replays
// the first few distinct models only
const maxReplayRuns = 4

var replayRuns = 0
var replayMu sync.Mutex

// cachedReplay runs each distinct (template, environment) once per check run.
func cachedReplay(repo, verifDir string, plan *replayPlan) (bool, string, string) {
	var ks []string
	for k, v := range plan.env {
		ks = append(ks, k+"="+v)
	}
	sort.Strings(ks)
	key := plan.template + "|" + strings.Join(ks, ",")
	replayMu.Lock()
	if r, ok := replayCache[key]; ok {
		replayMu.Unlock()
		return r[0] == "1", r[1], r[2]
	}
	if replayRuns >= maxReplayRuns {
		replayMu.Unlock()
		return false, fmt.Sprintf("not run: the replay budget of this check run (%d executions) is used up; the solver model is recorded", maxReplayRuns), ""
	}
	replayRuns++
	replayMu.Unlock()
	ok, out, cmd := runReplay(repo, verifDir, plan)
	flag := "0"
	if ok {
		flag = "1"
	}
	replayMu.Lock()
	replayCache[key] = [3]string{flag, out, cmd}
	replayMu.Unlock()
	return ok, out, cmd
}

var reReproduced = regexp.MustCompile(`(?m)^REPLAY-REPRODUCED: (.*)$`)

func runReplay(repo, verifDir string, plan *replayPlan) (bool, string, string) {
	tmp, err := os.MkdirTemp("/var/tmp", "govc-replay-")
	if err != nil {
		return false, err.Error(), ""
	}
	defer os.RemoveAll(tmp)
	src, err := os.ReadFile(filepath.Join(verifDir, "replay_templates", plan.template))
	if err != nil {
		return false, err.Error(), ""
	}
	testFile := filepath.Join(tmp, "zz_govc_replay_test.go")
	_ = os.WriteFile(testFile, src, 0o644)
	ov, _ := json.Marshal(map[string]any{"Replace": map[string]string{filepath.Join(repo, plan.pkgDir, "zz_govc_replay_test.go"): testFile}})
	ovPath := filepath.Join(tmp, "ov.json")
	_ = os.WriteFile(ovPath, ov, 0o644)
	args := []string{"test", "-overlay", ovPath, "-vet=off", "-count=1", "-v", "-timeout", "60s", "-run", "^" + plan.test + "$", "."}
	cmd := exec.Command("go", args...)
	cmd.Dir = filepath.Join(repo, plan.pkgDir)
	cmd.Env = append(os.Environ(), "GOFLAGS=-mod=mod", "GOPROXY=off")
	var envs []string
	for k, v := range plan.env {
		cmd.Env = append(cmd.Env, k+"="+v)
		envs = append(envs, k+"="+v)
	}
	sort.Strings(envs)
	var out bytes.Buffer
	cmd.Stdout, cmd.Stderr = &out, &out
	done := make(chan error, 1)
	go func() { done <- cmd.Run() }()
	select {
	case <-done:
	case <-time.After(120 * time.Second):
		_ = cmd.Process.Kill()
	}
	text := out.String()
	if len(text) > 1500 {
		text = text[:1500]
	}
	cmdline := strings.Join(envs, " ") + " go " + strings.Join(args, " ") + "  (in " + cmd.Dir + ", overlay injects replay_templates/" + plan.template + ")"
	if m := reReproduced.FindStringSubmatch(text); m != nil {
		return true, m[0], cmdline
	}
	return false, text, cmdline
}

func replayCmd(args []string, repo, verifDir string) int {
	if len(args) < 1 {
		fmt.Println("usage: govc replay <replay.json>")
		return 2
	}
	b, err := os.ReadFile(args[0])
	if err != nil {
		fmt.Println(err)
		return 2
	}
	var rec map[string]any
	if err := json.Unmarshal(b, &rec); err != nil {
		fmt.Println(err)
		return 2
	}
	fmt.Printf("obligation: %v\nfunction:   %v [%v]\nstatus:     %v\n", rec["obligation"], rec["function"], rec["mode"], rec["status"])
	rp, _ := rec["replay"].(map[string]any)
	if rp == nil || rp["attempted"] != true {
		fmt.Println("no executable replay recorded for this obligation (model / solver output are in the file)")
		return 0
	}
	plan := &replayPlan{template: fmt.Sprint(rp["template"]), pkgDir: fmt.Sprint(rp["package_dir"]), test: fmt.Sprint(rp["test"]), env: map[string]string{}}
	if e, ok := rp["env"].(map[string]any); ok {
		for k, v := range e {
			plan.env[k] = fmt.Sprint(v)
		}
	}
	ok, out, cmdline := runReplay(repo, verifDir, plan)
	fmt.Println("command:", cmdline)
	fmt.Println(out)
	if ok {
		fmt.Println("reproduced on", repo)
		return 1
	}
	fmt.Println("not reproduced on", repo)
	return 0
}
