#!/bin/sh
set -e
cd "$(dirname "$0")"
export GOFLAGS=-mod=mod GOPROXY=off
mkdir -p bin
cd govc && go build -o ../bin/govc . 
