package otter

import (
	"bytes"
	"testing"
	"time"
)

type d1Clock struct{ now int64 }

func (c *d1Clock) NowNano() int64                         { return c.now }
func (c *d1Clock) Tick(d time.Duration) <-chan time.Time { return make(chan time.Time) }

// An entry saved with 10 minutes left under an access-reset expiry policy must still expire 10 minutes after it is
// loaded (property C19: same expiration deadline); the warm-up reads of LoadCacheFrom must not reset it to a full hour.
func TestD1_LoadKeepsDeadlineUnderAccessExpiry(t *testing.T) {
	clk := &d1Clock{now: int64(1000 * time.Hour)}
	mk := func() *Cache[int, int] {
		return Must(&Options[int, int]{
			MaximumSize:      100,
			ExpiryCalculator: ExpiryAccessing[int, int](time.Hour),
			Clock:            clk,
			Executor:         func(fn func()) { fn() },
		})
	}
	src := mk()
	src.Set(1, 10)
	clk.now += int64(50 * time.Minute) // 10 minutes left
	var buf bytes.Buffer
	if err := SaveCacheTo(src, &buf); err != nil {
		t.Fatal(err)
	}
	want, _ := src.GetEntryQuietly(1)
	dst := mk()
	if err := LoadCacheFrom(dst, &buf); err != nil {
		t.Fatal(err)
	}
	got, ok := dst.GetEntryQuietly(1)
	if !ok {
		t.Fatal("entry not loaded")
	}
	if got.ExpiresAtNano != want.ExpiresAtNano {
		t.Fatalf("deadline after load = now+%v, saved deadline = now+%v", time.Duration(got.ExpiresAtNano-clk.now), time.Duration(want.ExpiresAtNano-clk.now))
	}
}

// An entry pinned with "never expires" keeps that after a save/load round trip.
func TestD2_LoadKeepsPinnedEntry(t *testing.T) {
	clk := &d1Clock{now: int64(1000 * time.Hour)}
	mk := func() *Cache[int, int] {
		return Must(&Options[int, int]{
			MaximumSize:      100,
			ExpiryCalculator: ExpiryWriting[int, int](time.Hour),
			Clock:            clk,
			Executor:         func(fn func()) { fn() },
		})
	}
	src := mk()
	src.Set(1, 10)
	src.SetExpiresAfter(1, time.Duration(1<<63-1))
	var buf bytes.Buffer
	if err := SaveCacheTo(src, &buf); err != nil {
		t.Fatal(err)
	}
	want, _ := src.GetEntryQuietly(1)
	dst := mk()
	if err := LoadCacheFrom(dst, &buf); err != nil {
		t.Fatal(err)
	}
	got, ok := dst.GetEntryQuietly(1)
	if !ok {
		t.Fatal("entry not loaded")
	}
	if got.ExpiresAtNano != want.ExpiresAtNano {
		t.Fatalf("deadline after load = %d, saved deadline = %d", got.ExpiresAtNano, want.ExpiresAtNano)
	}
}
