from z3 import *
import time
sh=[30,36,42,47,49]; b=[64,64,32,4,1]
spans=[1<<30,1<<36,1<<42,1<<47,1<<49,1<<49]
B=lambda n: BitVec(n,64)
def tick(x,i): return LShR(x,sh[i])
def level_is(E,Tp,i):
    d=E-Tp
    conds=[ULT(d,spans[k+1]) for k in range(4)]
    if i<4:
        return And(conds[i], *[Not(conds[k]) for k in range(i)])
    return And(*[Not(c) for c in conds])
def slot(E,i): return tick(E,i)&(b[i]-1)
def inv(E,T,s,i):
    base=[ULE(T,E), s==slot(E,i)]
    if i==0:
        base+= [ULE(tick(T,0),tick(E,0)), ULE(tick(E,0)-tick(T,0),64)]
    elif i<4:
        base+= [ULT(tick(T,i),tick(E,i)), ULE(tick(E,i)-tick(T,i),b[i])]
    else:
        base+= [ULT(tick(T,4),tick(E,4))]
    return And(*base)
def visited(s,Tp,T,i):
    # reached level i: all lower deltas !=0 and own delta != 0
    reach=And(*[tick(T,k)!=tick(Tp,k) for k in range(i+1)])
    delta=tick(T,i)-tick(Tp,i)
    steps=If(ULT(delta+1,b[i]),delta+1,BitVecVal(b[i],64))
    j=(s-(tick(Tp,i)&(b[i]-1)))&(b[i]-1)
    return And(reach, ULT(j,steps))
def prove(name,f):
    s=Solver(); s.add(Not(f)); t=time.time(); r=s.check(); print(name,r,round(time.time()-t,2)); 
    if r==sat: print(s.model())
E,Tp,T,s=B('E'),B('Tp'),B('T'),B('s')
lim=lambda x: ULT(x,1<<63)
for i in range(5):
    prove(f"L1[{i}]", Implies(And(lim(E),lim(Tp),ULE(Tp,E),level_is(E,Tp,i)), inv(E,Tp,slot(E,i),i)))
    prove(f"L2[{i}]", Implies(And(lim(E),lim(Tp),lim(T),inv(E,Tp,s,i),ULE(Tp,T),ULE(T,E),Not(visited(s,Tp,T,i))), inv(E,T,s,i)))
    prove(f"L3[{i}]", Implies(And(lim(E),lim(Tp),lim(T),inv(E,Tp,s,i),ULE(Tp,T),ULE(E+(1<<30),T)), visited(s,Tp,T,i)))
