from z3 import *
import time
BV=lambda n: BitVec(n,64)
def nib(w,j): return LShR(w, j<<2) & 0xf
def addr(block,ch,i):
    h=LShR(ch, i<<3)
    return (block + (h&1) + (i<<1), LShR(h,1)&15)
def umin(a,b): return If(ULT(a,b),a,b)
def freq(tab,block,ch):
    f=None
    for i in range(4):
        s,j=addr(block,ch,BitVecVal(i,64))
        c=nib(Select(tab,s),j)
        f=c if f is None else umin(f,c)
    return f
def incAt(tab,i,j):
    off=j<<2; m=BitVecVal(0xf,64)<<off
    w=Select(tab,i)
    return If((w&m)!=m, Store(tab,i,w+(BitVecVal(1,64)<<off)), tab)
tab=Array('tab',BitVecSort(64),BitVecSort(64))
block,ch,block2,ch2=BV('block'),BV('ch'),BV('block2'),BV('ch2')
t=tab
for i in range(4):
    s,j=addr(block,ch,BitVecVal(i,64))
    t=incAt(t,s,j)
def prove(name,f,to=60000):
    s=Solver(); s.set('timeout',to); s.add(Not(f)); t0=time.time(); r=s.check(); print(name,r,round(time.time()-t0,2))
    if r==sat: print(s.model())
blk=lambda x: (x&7)==0   # block is multiple of 8
f0=freq(tab,block,ch); f1=freq(t,block,ch)
prove("self", Implies(blk(block), UGE(f1, umin(f0+1, BitVecVal(15,64)))))
prove("self_le15", ULE(f1,15))
prove("other", Implies(And(blk(block),blk(block2)), UGE(freq(t,block2,ch2), freq(tab,block2,ch2))))
# exactness: f1 <= f0+1
prove("self_upper", Implies(blk(block), ULE(f1, f0+1)))
