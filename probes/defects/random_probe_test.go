package exp

// Design-time discovery probe (NOT the verification technique of this task):
// random single-goroutine operation sequences against a map-with-deadlines model.
// It only logs discrepancies; used to learn which sequential obligations of
// DESIGN.md §5 are false on the tree it is pointed at.

import (
	"fmt"
	"math/rand"
	"os"
	"sort"
	"strconv"
	"testing"
	"time"

	"github.com/maypok86/otter/v2"
	"github.com/maypok86/otter/v2/stats"
)

type mEntry struct {
	v        int
	w        uint32
	deadline int64
}

type ev struct {
	k, v  int
	cause otter.DeletionCause
}

type rcalc struct {
	kind int // 1 creating 2 writing 3 accessing
	d    *int64
}

func (r rcalc) ExpireAfterCreate(e otter.Entry[int, int]) time.Duration { return time.Duration(*r.d) }
func (r rcalc) ExpireAfterUpdate(e otter.Entry[int, int], old int) time.Duration {
	if r.kind >= 2 {
		return time.Duration(*r.d)
	}
	return e.ExpiresAfter()
}
func (r rcalc) ExpireAfterRead(e otter.Entry[int, int]) time.Duration {
	if r.kind == 3 {
		return time.Duration(*r.d)
	}
	return e.ExpiresAfter()
}

func weightOf(v int) uint32 { return uint32(v % 4) } // 0..3, zero weight pinned

func runSeq(t *testing.T, seed int64, steps int) (problems []string) {
	defer func() {
		if r := recover(); r != nil {
			problems = append(problems, fmt.Sprintf("seed=%d step 0 PANIC in real code: %v", seed, r))
		}
	}()
	rng := rand.New(rand.NewSource(seed))
	report := func(f string, a ...any) {
		if len(problems) < 6 {
			problems = append(problems, fmt.Sprintf("seed=%d ", seed)+fmt.Sprintf(f, a...))
		}
	}
	ck := &clk{now: 1_700_000_000_000_000_000}
	evKind := rng.Intn(3)   // 0 none 1 size 2 weight
	expKind := rng.Intn(4)  // 0 none
	deferred := rng.Intn(2) // executor
	var max uint64
	dur := int64(0)
	var dq dexec
	model := map[int]*mEntry{}
	written := map[[2]int]int{}  // (k,v) -> times written (values unique so 1)
	reportedA := map[[2]int]int{} // atomic
	reportedD := map[[2]int]int{} // OnDeletion
	total := func() uint64 {
		s := uint64(0)
		for _, e := range model {
			s += uint64(e.w)
		}
		return s
	}
	counter := stats.NewCounter()
	opts := &otter.Options[int, int]{Clock: ck, StatsRecorder: counter}
	if deferred == 1 {
		opts.Executor = dq.exec
	} else {
		opts.Executor = func(f func()) { f() }
	}
	switch evKind {
	case 1:
		max = uint64(1 + rng.Intn(6))
		opts.MaximumSize = int(max)
	case 2:
		max = uint64(1 + rng.Intn(12))
		opts.MaximumWeight = max
		opts.Weigher = func(k, v int) uint32 { return weightOf(v) }
	}
	if expKind > 0 {
		opts.ExpiryCalculator = rcalc{kind: expKind, d: &dur}
	}
	wOf := func(v int) uint32 {
		if evKind == 2 {
			return weightOf(v)
		}
		return 1
	}
	var lastOverflowCtx string
	opts.OnAtomicDeletion = func(e otter.DeletionEvent[int, int]) {
		reportedA[[2]int{e.Key, e.Value}]++
		m, ok := model[e.Key]
		switch e.Cause {
		case otter.CauseOverflow:
			if evKind == 0 {
				report("Overflow event in unbounded cache %v", e)
			}
			if ok && m.v == e.Value {
				if !(total() > max || uint64(m.w) > max) {
					report("Overflow not justified: total=%d max=%d entry=%v %s", total(), max, e, lastOverflowCtx)
				}
				if m.w == 0 {
					report("zero-weight entry evicted %v", e)
				}
				delete(model, e.Key)
			}
		case otter.CauseExpiration:
			if ok && m.v == e.Value {
				if m.deadline > ck.now {
					report("Expiration event before deadline: %v deadline=%d now=%d", e, m.deadline, ck.now)
				}
				delete(model, e.Key)
			}
		}
	}
	opts.OnDeletion = func(e otter.DeletionEvent[int, int]) { reportedD[[2]int{e.Key, e.Value}]++ }
	c := otter.Must(opts)
	defer c.StopAllGoroutines()
	if evKind != 0 {
		// SetMaximum at construction ran maintenance
	}
	nextV := 1
	live := func(k int) (*mEntry, bool) {
		m, ok := model[k]
		if !ok {
			return nil, false
		}
		if expKind > 0 && m.deadline <= ck.now {
			return m, false
		}
		return m, true
	}
	var hits, misses uint64
	const keys = 8
	for step := 0; step < steps; step++ {
		k := rng.Intn(keys)
		dur = int64(1e8) + rng.Int63n(5e9)
		if rng.Intn(40) == 0 {
			dur = int64(^uint64(0) >> 1) // MaxInt64: pinned
		}
		now := ck.now
		newDeadline := func(m *mEntry, isLive bool) int64 {
			if expKind == 0 {
				return int64(^uint64(0) >> 1)
			}
			sat := func(a, b int64) int64 {
				if a > int64(^uint64(0)>>1)-b {
					return int64(^uint64(0) >> 1)
				}
				return a + b
			}
			if isLive && expKind == 1 {
				return m.deadline
			}
			return sat(now, dur)
		}
		op := rng.Intn(12)
		lastOverflowCtx = fmt.Sprintf("(step %d op %d k %d)", step, op, k)
		switch op {
		case 0, 1, 2: // Set
			v := nextV*4 + rng.Intn(4)
			nextV++
			m, isLive := live(k)
			dl := newDeadline(m, isLive)
			// model first (events fire during the call)
			var wantV int
			var wantOK bool
			if isLive {
				wantV, wantOK = m.v, false
			} else {
				wantV, wantOK = v, true
			}
			if m != nil {
				// replaced value will be reported (Replacement or Expiration)
			}
			model[k] = &mEntry{v: v, w: wOf(v), deadline: dl}
			written[[2]int{k, v}]++
			gotV, gotOK := c.Set(k, v)
			if gotV != wantV || gotOK != wantOK {
				report("step %d Set(%d,%d) = (%d,%v) want (%d,%v) [live=%v]", step, k, v, gotV, gotOK, wantV, wantOK, isLive)
			}
		case 3: // SetIfAbsent
			v := nextV*4 + rng.Intn(4)
			nextV++
			m, isLive := live(k)
			var wantV int
			var wantOK bool
			if isLive {
				wantV, wantOK = m.v, false
				if expKind == 3 {
					m.deadline = newDeadline(m, true)
				}
			} else {
				wantV, wantOK = v, true
				model[k] = &mEntry{v: v, w: wOf(v), deadline: newDeadline(m, false)}
				written[[2]int{k, v}]++
			}
			gotV, gotOK := c.SetIfAbsent(k, v)
			if gotV != wantV || gotOK != wantOK {
				report("step %d SetIfAbsent(%d,%d) = (%d,%v) want (%d,%v)", step, k, v, gotV, gotOK, wantV, wantOK)
			}
		case 4, 5, 6: // GetIfPresent
			m, isLive := live(k)
			if isLive && expKind == 3 {
				m.deadline = newDeadline(m, true)
			}
			gotV, gotOK := c.GetIfPresent(k)
			if isLive {
				hits++
			} else {
				misses++
			}
			if gotOK != isLive || (isLive && gotV != m.v) {
				// the entry may have been evicted during a previous deferred maintenance; model is updated by events
				report("step %d GetIfPresent(%d) = (%d,%v) want live=%v", step, k, gotV, gotOK, isLive)
			}
		case 7: // Invalidate
			m, isLive := live(k)
			delete(model, k)
			gotV, gotOK := c.Invalidate(k)
			if gotOK != isLive || (isLive && gotV != m.v) {
				report("step %d Invalidate(%d) = (%d,%v) want live=%v", step, k, gotV, gotOK, isLive)
			}
		case 8: // Compute
			m, isLive := live(k)
			choice := otter.ComputeOp(rng.Intn(3))
			v := nextV*4 + rng.Intn(4)
			nextV++
			var sawV int
			var sawFound bool
			calls := 0
			dl := newDeadline(m, isLive)
			switch choice {
			case otter.WriteOp:
				model[k] = &mEntry{v: v, w: wOf(v), deadline: dl}
				written[[2]int{k, v}]++
			case otter.InvalidateOp:
				delete(model, k)
			case otter.CancelOp:
				if !isLive {
					delete(model, k)
				}
			}
			gotV, gotOK := c.Compute(k, func(old int, found bool) (int, otter.ComputeOp) {
				calls++
				sawV, sawFound = old, found
				return v, choice
			})
			if isLive {
				hits++
			} else {
				misses++
			}
			if calls != 1 || sawFound != isLive || (isLive && sawV != m.v) {
				report("step %d Compute(%d) callback calls=%d saw (%d,%v) want live=%v", step, k, calls, sawV, sawFound, isLive)
			}
			var wantV int
			var wantOK bool
			switch choice {
			case otter.WriteOp:
				wantV, wantOK = v, true
			case otter.InvalidateOp:
			case otter.CancelOp:
				if isLive {
					wantV, wantOK = m.v, true
				}
			}
			if gotV != wantV || gotOK != wantOK {
				report("step %d Compute(%d,%v) = (%d,%v) want (%d,%v)", step, k, choice, gotV, gotOK, wantV, wantOK)
			}
		case 9: // SetExpiresAfter
			if expKind > 0 {
				m, isLive := live(k)
				if isLive {
					m.deadline = newDeadline(&mEntry{}, false)
				}
				c.SetExpiresAfter(k, time.Duration(dur))
			}
		case 10: // advance clock
			ck.now += rng.Int63n(3e9)
			if rng.Intn(20) == 0 {
				ck.now += rng.Int63n(4e14) // days
			}
		case 11: // SetMaximum
			if evKind != 0 && rng.Intn(4) == 0 {
				max = uint64(rng.Intn(8))
				c.SetMaximum(max)
			}
		}
		if deferred == 1 && rng.Intn(3) != 0 {
			dq.run()
		}
		if rng.Intn(5) == 0 || step == steps-1 {
			dq.run()
			c.CleanUp()
			dq.run()
			// ---- quiescent checks ----
			now := ck.now
			present := map[int]otter.Entry[int, int]{}
			for kk := 0; kk < keys; kk++ {
				if e, ok := c.GetEntryQuietly(kk); ok {
					present[kk] = e
				}
			}
			for kk := 0; kk < keys; kk++ {
				m, isLive := live(kk)
				e, ok := present[kk]
				if ok != isLive {
					report("step %d quiescent: key %d present=%v model live=%v (model=%v)", step, kk, ok, isLive, m)
					continue
				}
				if ok {
					if e.Value != m.v {
						report("step %d quiescent: key %d value %d want %d", step, kk, e.Value, m.v)
					}
					if expKind > 0 && e.ExpiresAtNano != m.deadline {
						report("step %d quiescent: key %d deadline %d want %d (now %d)", step, kk, e.ExpiresAtNano, m.deadline, now)
					}
					if e.Weight != m.w {
						report("step %d quiescent: key %d weight %d want %d", step, kk, e.Weight, m.w)
					}
				}
			}
			// iteration
			all := map[int]int{}
			sum := uint64(0)
			for kk, vv := range c.All() {
				if _, dup := all[kk]; dup {
					report("All yields %d twice", kk)
				}
				all[kk] = vv
				if _, ok := present[kk]; !ok {
					report("step %d All yields %d which GetEntryQuietly does not see", step, kk)
				} else {
					sum += uint64(present[kk].Weight)
				}
			}
			if len(all) != len(present) {
				report("step %d All len %d present %d", step, len(all), len(present))
			}
			if evKind != 0 {
				if sum > c.GetMaximum() {
					report("step %d size bound: sum=%d max=%d", step, sum, c.GetMaximum())
				}
				staleW := uint64(0)
				for _, m := range model {
					if expKind > 0 && m.deadline <= now {
						staleW += uint64(m.w) // expired, not yet swept: still tracked by the policy
					}
				}
				if ws := c.WeightedSize(); evKind == 2 && (ws < sum || ws > sum+staleW || (staleW == 0 && ws != sum)) {
					report("step %d WeightedSize=%d sum=%d stale=%d", step, ws, sum, staleW)
				}
				for name, it := range map[string]func() []int{
					"Coldest": func() (r []int) {
						for e := range c.Coldest() {
							r = append(r, e.Key)
						}
						return
					},
					"Hottest": func() (r []int) {
						for e := range c.Hottest() {
							r = append(r, e.Key)
						}
						return
					},
				} {
					ks := it()
					sort.Ints(ks)
					var want []int
					for kk := range all {
						want = append(want, kk)
					}
					sort.Ints(want)
					if fmt.Sprint(ks) != fmt.Sprint(want) {
						report("step %d %s=%v All=%v", step, name, ks, want)
					}
				}
			}
			// swept within a tick
			if expKind > 0 {
				stale := 0
				for _, m := range model {
					if m.deadline <= now && m.deadline > now-1_200_000_000 {
						stale++
					}
				}
				if c.EstimatedSize() > len(present)+stale {
					report("step %d unswept: EstimatedSize=%d live=%d recently-expired=%d", step, c.EstimatedSize(), len(present), stale)
				}
			}
			// conservation
			for kv, n := range written {
				inCache := 0
				if vv, ok := all[kv[0]]; ok && vv == kv[1] {
					inCache = 1
				}
				// expired-unswept values are neither visible nor reported yet
				if m, ok := model[kv[0]]; ok && m.v == kv[1] && inCache == 0 {
					continue
				}
				if inCache+reportedA[kv] != n {
					report("step %d conservation(atomic): %v written %d present %d reported %d", step, kv, n, inCache, reportedA[kv])
				}
				if reportedD[kv] != reportedA[kv] {
					report("step %d OnDeletion count %d != atomic %d for %v", step, reportedD[kv], reportedA[kv], kv)
				}
			}
			s := counter.Snapshot()
			if s.Hits != hits || s.Misses != misses {
				report("step %d stats hits=%d want %d misses=%d want %d", step, s.Hits, hits, s.Misses, misses)
			}
		}
		if len(problems) >= 6 {
			break
		}
	}
	return problems
}

func TestRandomSequentialProbe(t *testing.T) {
	n := 300
	if s := os.Getenv("PROBE_SEEDS"); s != "" {
		n, _ = strconv.Atoi(s)
	}
	bad := 0
	seen := map[string]int{}
	for seed := int64(1); seed <= int64(n); seed++ {
		ps := runSeq(t, seed, 400)
		if len(ps) > 0 {
			bad++
			for _, p := range ps[:1] {
				if bad <= 25 {
					t.Log(p)
				}
			}
			for _, p := range ps {
				// classify by message shape
				key := p
				if i := indexAfter(p, "step "); i >= 0 {
					key = p[i:]
				}
				seen[shape(key)]++
			}
		}
	}
	t.Logf("sequences with discrepancies: %d / %d", bad, n)
	for k, v := range seen {
		t.Logf("%5d  %s", v, k)
	}
}

func indexAfter(s, sub string) int {
	for i := 0; i+len(sub) <= len(s); i++ {
		if s[i:i+len(sub)] == sub {
			j := i + len(sub)
			for j < len(s) && s[j] >= '0' && s[j] <= '9' {
				j++
			}
			return j
		}
	}
	return -1
}

func shape(s string) string {
	out := make([]byte, 0, len(s))
	for i := 0; i < len(s); i++ {
		if s[i] >= '0' && s[i] <= '9' {
			if len(out) == 0 || out[len(out)-1] != '#' {
				out = append(out, '#')
			}
			continue
		}
		out = append(out, s[i])
	}
	return string(out)
}
