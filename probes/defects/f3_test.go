package exp

import (
	"testing"
	"time"

	"github.com/maypok86/otter/v2"
)

type raceCalc struct {
	armRead   bool
	readEnter chan struct{}
	readLeave chan struct{}
	onCreate  func()
}

func (b *raceCalc) ExpireAfterCreate(e otter.Entry[int, int]) time.Duration {
	if b.onCreate != nil {
		f := b.onCreate
		b.onCreate = nil
		f()
	}
	return 100
}
func (b *raceCalc) ExpireAfterUpdate(e otter.Entry[int, int], old int) time.Duration { return 100 }
func (b *raceCalc) ExpireAfterRead(e otter.Entry[int, int]) time.Duration {
	if b.armRead {
		b.armRead = false
		b.readEnter <- struct{}{}
		<-b.readLeave
	}
	return 1_000_000
}

func TestSetIfAbsentRecheckRace(t *testing.T) {
	ck := &clk{now: 1000}
	rc := &raceCalc{readEnter: make(chan struct{}), readLeave: make(chan struct{})}
	var events []otter.DeletionEvent[int, int]
	c := otter.Must(&otter.Options[int, int]{ExpiryCalculator: rc, Clock: ck, Executor: func(f func()) { f() }, MaximumSize: 100,
		OnDeletion: func(e otter.DeletionEvent[int, int]) { events = append(events, e) }})
	c.Set(1, 1) // E = 1100
	ck.now = 1050
	rc.armRead = true
	readerDone := make(chan struct{})
	go func() { c.GetIfPresent(1); close(readerDone) }()
	<-rc.readEnter // reader sampled 1050, blocked before CAS
	ck.now = 2000
	rc.onCreate = func() {
		rc.readLeave <- struct{}{}
		<-readerDone
	}
	v, inserted := c.SetIfAbsent(1, 2)
	got, ok := c.GetIfPresent(1)
	t.Logf("SetIfAbsent returned (%d,%v); cache now holds (%d,%v)", v, inserted, got, ok)
	c.CleanUp()
	n := 0
	for range c.Coldest() {
		n++
	}
	m := 0
	for range c.All() {
		m++
	}
	t.Logf("all=%d coldest=%d events=%v", m, n, events)
}
