package exp

import (
	"bytes"
	"testing"
	"time"

	"github.com/maypok86/otter/v2"
)

type blockCalc struct {
	enter chan struct{}
	leave chan struct{}
	block bool
}

func (b *blockCalc) ExpireAfterCreate(e otter.Entry[int, int]) time.Duration {
	if b.block {
		b.enter <- struct{}{}
		<-b.leave
	}
	return 1
}
func (b *blockCalc) ExpireAfterUpdate(e otter.Entry[int, int], old int) time.Duration { return 1 }
func (b *blockCalc) ExpireAfterRead(e otter.Entry[int, int]) time.Duration         { return e.ExpiresAfter() }

func TestWheelRacedWrite(t *testing.T) {
	ck := &clk{now: 1_000_000_000_000}
	bc := &blockCalc{enter: make(chan struct{}), leave: make(chan struct{})}
	var events []otter.DeletionEvent[int, int]
	c := otter.Must(&otter.Options[int, int]{ExpiryCalculator: bc, Clock: ck, Executor: func(f func()) { f() },
		OnDeletion: func(e otter.DeletionEvent[int, int]) { events = append(events, e) }})
	// establish wheel time
	c.Set(0, 0)
	c.CleanUp()
	bc.block = true
	done := make(chan struct{})
	go func() { c.Set(1, 1); close(done) }()
	<-bc.enter
	ck.now += 10_000_000_000 // +10s
	c.CleanUp()               // wheel time moves to now
	bc.block = false
	bc.leave <- struct{}{}
	<-done
	c.CleanUp()
	ck.now += 10_000_000_000
	c.CleanUp()
	ck.now += 100_000_000_000
	c.CleanUp()
	t.Logf("size=%d events=%v", c.EstimatedSize(), events)
}

func TestLoadAtDeadline(t *testing.T) {
	ck := &clk{now: 1000}
	mk := func() *otter.Cache[int, int] {
		return otter.Must(&otter.Options[int, int]{ExpiryCalculator: otter.ExpiryWriting[int, int](100), Clock: ck, Executor: func(f func()) { f() }})
	}
	src := mk()
	src.Set(1, 1)
	var buf bytes.Buffer
	if err := otter.SaveCacheTo(src, &buf); err != nil {
		t.Fatal(err)
	}
	ck.now = 1100 // == deadline: expired
	_, ok := src.GetIfPresent(1)
	dst := mk()
	if err := otter.LoadCacheFrom(dst, &buf); err != nil {
		t.Fatal(err)
	}
	_, ok2 := dst.GetIfPresent(1)
	e, _ := dst.GetEntryQuietly(1)
	t.Logf("src present=%v dst present=%v exp=%d", ok, ok2, e.ExpiresAtNano)
}

func TestSaveZeroWeightTail(t *testing.T) {
	mk := func() *otter.Cache[int, int] {
		return otter.Must(&otter.Options[int, int]{MaximumWeight: 2, Weigher: func(k, v int) uint32 { return uint32(v) }, Executor: func(f func()) { f() }})
	}
	src := mk()
	src.Set(1, 0) // zero weight
	src.Set(2, 1)
	src.Set(3, 1)
	n := 0
	for e := range src.Hottest() {
		t.Logf("hot %v w=%d", e.Key, e.Weight)
		n++
	}
	var buf bytes.Buffer
	otter.SaveCacheTo(src, &buf)
	dst := mk()
	otter.LoadCacheFrom(dst, &buf)
	m := 0
	for range dst.All() {
		m++
	}
	t.Logf("src=%d dst=%d", n, m)
}
