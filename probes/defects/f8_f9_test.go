package exp

import (
	"context"
	"testing"
	"time"

	"github.com/maypok86/otter/v2"
)

func TestRefreshAfterExpiredOverwrite(t *testing.T) {
	ck := &clk{now: 1000}
	c := otter.Must(&otter.Options[int, int]{
		ExpiryCalculator:  otter.ExpiryWriting[int, int](100),
		RefreshCalculator: otter.RefreshCreating[int, int](50),
		Clock:             ck, Executor: func(f func()) { f() }})
	c.Set(1, 1)
	e, _ := c.GetEntryQuietly(1)
	t.Logf("t=1000 exp=%d refr=%d", e.ExpiresAtNano, e.RefreshableAtNano)
	ck.now = 5000 // expired, unswept
	c.Set(1, 2)   // logically a create
	e, ok := c.GetEntryQuietly(1)
	t.Logf("t=5000 ok=%v exp=%d refr=%d (create would give 5050)", ok, e.ExpiresAtNano, e.RefreshableAtNano)
	// after sweep then create
	ck.now = 9000
	c.CleanUp()
	c.Set(1, 3)
	e, ok = c.GetEntryQuietly(1)
	t.Logf("t=9000 after sweep ok=%v exp=%d refr=%d", ok, e.ExpiresAtNano, e.RefreshableAtNano)
}

type ldr struct{}

func (ldr) Load(ctx context.Context, k int) (int, error)          { return 7, nil }
func (ldr) Reload(ctx context.Context, k int, old int) (int, error) { panic("boom") }

func TestRefreshPanic(t *testing.T) {
	ck := &clk{now: 1000}
	c := otter.Must(&otter.Options[int, int]{
		RefreshCalculator: otter.RefreshWriting[int, int](50),
		Clock:             ck, Executor: func(f func()) { f() }})
	c.Set(1, 1)
	defer func() {
		r := recover()
		t.Logf("recovered from Refresh: %v", r != nil)
		// in-flight record gone? a later Get must work
		v, err := c.Get(context.Background(), 2, ldr{})
		t.Logf("later get: %v %v", v, err)
	}()
	ch := c.Refresh(context.Background(), 1, ldr{})
	select {
	case r := <-ch:
		t.Logf("result %+v", r)
	case <-time.After(100 * time.Millisecond):
		t.Logf("no result")
	}
}
