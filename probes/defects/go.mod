module probes
go 1.24.0
require github.com/maypok86/otter/v2 v2.0.0
replace github.com/maypok86/otter/v2 => /repo
