package exp

import (
	"context"
	"math"
	"testing"
	"time"

	"github.com/maypok86/otter/v2"
)

type clk struct{ now int64 }

func (c *clk) NowNano() int64                       { return c.now }
func (c *clk) Tick(d time.Duration) <-chan time.Time { return make(chan time.Time) }

// deferred executor
type dexec struct{ q []func() }

func (d *dexec) exec(fn func()) { d.q = append(d.q, fn) }
func (d *dexec) run() {
	for len(d.q) > 0 {
		f := d.q[0]
		d.q = d.q[1:]
		f()
	}
}

func TestDoubleSetBeforeMaintenance(t *testing.T) {
	d := &dexec{}
	c := otter.Must(&otter.Options[int, int]{MaximumSize: 10, Executor: d.exec})
	c.Set(1, 1)
	c.Set(1, 2)
	d.run()
	c.CleanUp()
	n := 0
	for range c.Coldest() {
		n++
	}
	m := 0
	for range c.All() {
		m++
	}
	t.Logf("coldest=%d all=%d est=%d", n, m, c.EstimatedSize())
	// now fill
	for i := 100; i < 200; i++ {
		c.Set(i, i)
		d.run()
	}
	c.CleanUp()
	n = 0
	for range c.Coldest() {
		n++
	}
	m = 0
	for range c.All() {
		m++
	}
	_, ok := c.GetIfPresent(1)
	t.Logf("after fill: coldest=%d all=%d est=%d has1=%v", n, m, c.EstimatedSize(), ok)
}

func TestOverflowTTL(t *testing.T) {
	ck := &clk{now: 1000}
	c := otter.Must(&otter.Options[int, int]{ExpiryCalculator: otter.ExpiryWriting[int, int](time.Duration(math.MaxInt64)), Clock: ck, Executor: func(f func()) { f() }})
	c.Set(1, 1)
	_, ok := c.GetIfPresent(1)
	e, ok2 := c.GetEntryQuietly(1)
	t.Logf("present=%v %v exp=%d", ok, ok2, e.ExpiresAtNano)
}

func TestExpiredUnswept(t *testing.T) {
	ck := &clk{now: 1000}
	c := otter.Must(&otter.Options[int, int]{ExpiryCalculator: otter.ExpiryWriting[int, int](100), Clock: ck, Executor: func(f func()) { f() }})
	c.Set(1, 1)
	ck.now = 2000
	v, inserted := c.Set(1, 2)
	t.Logf("Set on expired: v=%d inserted=%v", v, inserted)
	ck.now = 3000
	v, inv := c.Invalidate(1)
	t.Logf("Invalidate on expired: v=%d invalidated=%v", v, inv)
	c.Set(2, 5)
	ck.now = 4000
	c.SetExpiresAfter(2, 10000)
	v, ok := c.GetIfPresent(2)
	t.Logf("after SetExpiresAfter on expired: v=%d ok=%v", v, ok)
}

func TestBulkPartial(t *testing.T) {
	c := otter.Must(&otter.Options[int, int]{Executor: func(f func()) { f() }})
	res, err := c.BulkGet(context.Background(), []int{1, 2, 3}, otter.BulkLoaderFunc[int, int](func(ctx context.Context, keys []int) (map[int]int, error) {
		return map[int]int{1: 10}, nil
	}))
	t.Logf("res=%v err=%v", res, err)
}
