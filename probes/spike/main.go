// Feasibility spike for DESIGN.md §2 (NOT the verification framework, wired to nothing).
//
// It answers four design questions on the real code of /repo:
//  1. can contract clauses be ordinary Go functions injected through packages.Config.Overlay
//     and lowered by go/ssa next to the generic method they describe?
//  2. is a path-enumerating symbolic executor over go/ssa with per-field heap arrays and
//     64-bit bit-vector semantics small enough to write, and are its VCs discharged quickly?
//  3. does it find the now+duration overflow of setExpiresAfterRead (DESIGN §7-F2) with a model?
//  4. does a contract proved for one function (admit) fail when the code is mutated?
//
// usage: spike [-repo /repo]
package main

import (
	"bytes"
	"flag"
	"fmt"
	"go/constant"
	"go/token"
	"go/types"
	"os"
	"os/exec"
	"sort"
	"strings"
	"time"

	"golang.org/x/tools/go/packages"
	"golang.org/x/tools/go/ssa"
	"golang.org/x/tools/go/ssa/ssautil"
)

// ---------------------------------------------------------------- contracts (overlay only)

const synth = `//go:build verif

package otter

import (
	"math"

	"github.com/maypok86/otter/v2/internal/generated/node"
)

// stubs interpreted by the executor
func implies(a, b bool) bool { return !a || b }
func same[T any](a, b T) bool { return false } // logical equality, also for non-comparable V
func specExpiresAt[K comparable, V any](n node.Node[K, V]) int64 { return n.ExpiresAt() }
func specFreq[K comparable](s *sketch[K], k K) uint64              { return s.frequency(k) }

// spec function: plain Go, inlined through its SSA
func satadd(a, b int64) int64 {
	if a > math.MaxInt64-b {
		return math.MaxInt64
	}
	return a + b
}

// ---- (*cache).setExpiresAfterRead
func _req_setExpiresAfterRead[K comparable, V any](c *cache[K, V], n node.Node[K, V], nowNano int64, expiresAfter int64) bool {
	return c.withExpiration && nowNano >= 0 && specExpiresAt(n) > nowNano
}
func _pre_setExpiresAfterRead[K comparable, V any](c *cache[K, V], n node.Node[K, V]) int64 {
	return specExpiresAt(n)
}
// [C12:read-exact] + [C12:never-in-the-past]
func _ens_setExpiresAfterRead_exact[K comparable, V any](c *cache[K, V], n node.Node[K, V], nowNano int64, expiresAfter int64, old0 int64) bool {
	return implies(expiresAfter > 0, specExpiresAt(n) == satadd(nowNano, expiresAfter))
}
func _ens_setExpiresAfterRead_keep[K comparable, V any](c *cache[K, V], n node.Node[K, V], nowNano int64, expiresAfter int64, old0 int64) bool {
	return implies(expiresAfter <= 0, specExpiresAt(n) == old0)
}
// the weaker statement the *current* code does satisfy (exact when there is no overflow)
func _ens_setExpiresAfterRead_exactNoOvf[K comparable, V any](c *cache[K, V], n node.Node[K, V], nowNano int64, expiresAfter int64, old0 int64) bool {
	return implies(expiresAfter > 0 && expiresAfter <= math.MaxInt64-nowNano, specExpiresAt(n) == nowNano+expiresAfter)
}

// ---- (*cache).set   (table model: the callback passed to hashmap.Compute is inlined at the linearization point)
func ghostPresent[K comparable, V any](c *cache[K, V]) bool              { return false } // M[key] live at the LP
func ghostSeen[K comparable, V any](c *cache[K, V]) node.Node[K, V]      { return nil }   // M[key] at the LP
func ghostInstalled[K comparable, V any](c *cache[K, V]) node.Node[K, V] { return nil }   // M'[key]
func ghostAfterWrites[K comparable, V any](c *cache[K, V]) int           { return 0 }
func specValue[K comparable, V any](n node.Node[K, V]) V                 { return n.Value() }

func _req_set[K comparable, V any](c *cache[K, V], key K, value V, onlyIfAbsent bool) bool { return c.withExpiration }
func _pre_set[K comparable, V any](c *cache[K, V], key K, value V, onlyIfAbsent bool) int64 { return 0 }
// [C03:not-present] / [C01:ret-absent]: an expired-but-unswept or missing entry is reported as absent
func _ens_set_retAbsent[K comparable, V any](c *cache[K, V], key K, value V, onlyIfAbsent bool, r0 V, r1 bool, old0 int64) bool {
	return implies(!ghostPresent(c), r1 && same(r0, value))
}
// [C01:ret-present]
func _ens_set_retPresent[K comparable, V any](c *cache[K, V], key K, value V, onlyIfAbsent bool, r0 V, r1 bool, old0 int64) bool {
	return implies(ghostPresent(c), !r1 && same(r0, specValue(ghostSeen(c))))
}
// [C05/C06:task-once]: the policy is told about the write exactly when the table was changed
func _ens_set_afterWriteIffInstalled[K comparable, V any](c *cache[K, V], key K, value V, onlyIfAbsent bool, r0 V, r1 bool, old0 int64) bool {
	return (ghostAfterWrites(c) == 1) == (ghostInstalled(c) != ghostSeen(c)) && ghostAfterWrites(c) <= 1
}
// [C01:view-after]
func _ens_set_installs[K comparable, V any](c *cache[K, V], key K, value V, onlyIfAbsent bool, r0 V, r1 bool, old0 int64) bool {
	return implies(!onlyIfAbsent || !ghostPresent(c), ghostInstalled(c) != nil && same(specValue(ghostInstalled(c)), value)) &&
		implies(onlyIfAbsent && ghostPresent(c), ghostInstalled(c) == ghostSeen(c))
}

// ---- (*sketch).reset : loop 1 with a pointwise (skolemised) invariant; jstar/qstar are arbitrary but fixed
func nib(w, j uint64) uint64 { return (w >> (j << 2)) & 0xf }
func specElem[K comparable](s *sketch[K], j uint64) uint64 { return s.table[j] }
func specLen[K comparable](s *sketch[K]) uint64            { return uint64(len(s.table)) }

func _req_reset[K comparable](s *sketch[K]) bool              { return true }
func _pre_reset[K comparable](s *sketch[K], jstar uint64) int64 { return int64(specElem(s, jstar)) }
func _inv_reset_1[K comparable](s *sketch[K], i int, jstar uint64, old0 int64, len0 uint64) bool {
	return i >= 0 && uint64(i) <= specLen(s) && specLen(s) == len0 &&
		implies(jstar < uint64(i), specElem(s, jstar) == (uint64(old0)>>1)&resetMask) &&
		implies(jstar >= uint64(i), specElem(s, jstar) == uint64(old0))
}
// [C18:reset-halves] every 4-bit counter of every word is halved
func _ens_reset_halves[K comparable](s *sketch[K], jstar uint64, qstar uint64, old0 int64, len0 uint64) bool {
	return implies(jstar < specLen(s) && qstar < 16, nib(specElem(s, jstar), qstar) == nib(uint64(old0), qstar)>>1) && specLen(s) == len0
}

// ---- (*policy).admit
func _req_admit[K comparable, V any](p *policy[K, V], candidateKey, victimKey K) bool { return true }
func _pre_admit[K comparable, V any](p *policy[K, V], candidateKey, victimKey K) int64  { return 0 }
// [C18:admit-strict]
func _ens_admit_greaterAdmits[K comparable, V any](p *policy[K, V], candidateKey, victimKey K, result bool, old0 int64) bool {
	return implies(specFreq(p.sketch, candidateKey) > specFreq(p.sketch, victimKey), result)
}
func _ens_admit_coldNeverAdmitted[K comparable, V any](p *policy[K, V], candidateKey, victimKey K, result bool, old0 int64) bool {
	return implies(result && specFreq(p.sketch, candidateKey) < 6, specFreq(p.sketch, candidateKey) > specFreq(p.sketch, victimKey))
}
`

// ---------------------------------------------------------------- terms and values

type term struct {
	s string
	w int    // bit width for bit-vectors, 0 otherwise
	k string // "bool" | "bv" | "ref" | sort name
}

type loc struct {
	cell  int    // >0: local cell
	base  string // field: base ref term / slice ref for elements
	field string // heap key
	idx   string // element index term ("" for fields)
	typ   types.Type
}

type obligation struct {
	name string
	pc   []string
	goal string
}

type val struct {
	t     term
	isPtr bool
	l     loc
	tuple []val
	fn    *ssa.Function // known function value
	bind  []val         // closure bindings
}

type state struct {
	pc    []string
	heap  map[string]string // heap key -> array term
	cells map[int]val
	ghost map[string]string
	x     *ctx
}

func (s *state) clone() *state {
	n := &state{pc: append([]string(nil), s.pc...), heap: map[string]string{}, cells: map[int]val{}, ghost: map[string]string{}, x: s.x}
	for k, v := range s.heap {
		n.heap[k] = v
	}
	for k, v := range s.ghost {
		n.ghost[k] = v
	}
	for k, v := range s.cells {
		n.cells[k] = v
	}
	return n
}

type ctx struct {
	decls   []string
	seen    map[string]bool
	fresh   int
	sorts   map[string]bool
	heapTyp map[string]string
	prog    *ssa.Program
	pkg     *ssa.Package
	npaths  int
	itf     bool // interference mode: shared mutable node fields are havocked after a critical section
	obls    []obligation
	spec    bool // evaluating a clause: no safety obligations
	target  string
	bindBy  func(st *state, name string, t types.Type) (val, bool)
	skolem  map[string]val
}

func (x *ctx) declare(name, sortS string) {
	if !x.seen[name] {
		x.seen[name] = true
		x.decls = append(x.decls, fmt.Sprintf("(declare-fun %s () %s)", name, sortS))
	}
}

func (x *ctx) sortOf(t types.Type) (string, term) {
	switch u := t.(type) {
	case *types.TypeParam:
		n := "T_" + u.Obj().Name()
		if !x.sorts[n] {
			x.sorts[n] = true
			x.decls = append([]string{fmt.Sprintf("(declare-sort %s 0)", n)}, x.decls...)
		}
		return n, term{k: n}
	}
	switch u := t.Underlying().(type) {
	case *types.Basic:
		if u.Info()&types.IsBoolean != 0 {
			return "Bool", term{k: "bool"}
		}
		if u.Info()&types.IsInteger != 0 {
			w := map[types.BasicKind]int{types.Int8: 8, types.Uint8: 8, types.Int16: 16, types.Uint16: 16, types.Int32: 32, types.Uint32: 32,
				types.Int64: 64, types.Uint64: 64, types.Int: 64, types.Uint: 64, types.Uintptr: 64, types.UntypedInt: 64}[u.Kind()]
			return fmt.Sprintf("(_ BitVec %d)", w), term{w: w, k: "bv"}
		}
	case *types.Pointer, *types.Interface, *types.Signature, *types.Slice, *types.Map, *types.Chan:
		return "(_ BitVec 64)", term{w: 64, k: "ref"}
	}
	// opaque struct values etc.
	return "(_ BitVec 64)", term{w: 64, k: "ref"}
}

func (x *ctx) zero(t types.Type) term {
	s, tm := x.sortOf(t)
	switch {
	case tm.k == "bool":
		tm.s = "false"
	case tm.w > 0:
		tm.s = bvlit(0, tm.w)
	default:
		tm.s = "zero_" + tm.k
		x.declare(tm.s, s)
	}
	return tm
}

func (x *ctx) freshVar(prefix string, t types.Type) term {
	x.fresh++
	s, tm := x.sortOf(t)
	name := fmt.Sprintf("%s!%d", prefix, x.fresh)
	x.declare(name, s)
	tm.s = name
	return tm
}

func isUnsigned(t types.Type) bool {
	b, ok := t.Underlying().(*types.Basic)
	return ok && b.Info()&types.IsUnsigned != 0
}

func bvlit(v uint64, w int) string { return fmt.Sprintf("(_ bv%d %d)", v, w) }

// ---------------------------------------------------------------- executor

type frame struct {
	fn   *ssa.Function
	regs map[ssa.Value]val
}

type outcome struct {
	st  *state
	ret val
}

func (x *ctx) heapArr(st *state, key string, elem types.Type) string {
	if a, ok := st.heap[key]; ok {
		return a
	}
	es, _ := x.sortOf(elem)
	name := "H_" + key
	x.declare(name, fmt.Sprintf("(Array (_ BitVec 64) %s)", es))
	st.heap[key] = name
	return name
}

func fieldKey(structT types.Type, idx int) (string, types.Type) {
	n := "anon"
	if named, ok := structT.(*types.Named); ok {
		n = named.Origin().Obj().Name()
	}
	st := structT.Underlying().(*types.Struct)
	return n + "_" + st.Field(idx).Name(), st.Field(idx).Type()
}

func (x *ctx) get(fr *frame, st *state, v ssa.Value) val {
	switch c := v.(type) {
	case *ssa.Const:
		_, tm := x.sortOf(c.Type())
		if c.Value == nil {
			tm.s = bvlit(0, 64)
			return val{t: tm}
		}
		switch c.Value.Kind() {
		case constant.Bool:
			tm.s = fmt.Sprint(constant.BoolVal(c.Value))
		case constant.Int:
			if i, ok := constant.Int64Val(c.Value); ok {
				tm.s = bvlit(uint64(i)&mask(tm.w), tm.w)
			} else {
				u, _ := constant.Uint64Val(c.Value)
				tm.s = bvlit(u&mask(tm.w), tm.w)
			}
		default:
			tm = x.freshVar("const", c.Type())
		}
		return val{t: tm}
	case *ssa.Function:
		return val{fn: c}
	}
	if r, ok := fr.regs[v]; ok {
		return r
	}
	panic(fmt.Sprintf("unbound SSA value %s (%T) in %s", v.Name(), v, fr.fn.Name()))
}

func mask(w int) uint64 {
	if w >= 64 {
		return ^uint64(0)
	}
	return (uint64(1) << uint(w)) - 1
}

func isLoopHeader(b *ssa.BasicBlock) bool {
	for _, p := range b.Preds {
		if b.Dominates(p) {
			return true
		}
	}
	return false
}

// loopRule implements the cut: assert the invariant, havoc what the loop may change, assume the invariant.
func (x *ctx) loopRule(st *state, fr *frame, b *ssa.BasicBlock, prev *ssa.BasicBlock) (stop bool) {
	ord := 1 // spike: one loop per function
	inv := x.pkg.Func(fmt.Sprintf("_inv_%s_%d", x.target, ord))
	if inv == nil {
		panic("loop without invariant in " + x.target)
	}
	phiVal := func(useFresh bool) map[string]val {
		m := map[string]val{}
		for _, in := range b.Instrs {
			ph, ok := in.(*ssa.Phi)
			if !ok {
				break
			}
			if useFresh {
				m[ph.Comment] = fr.regs[ph]
				continue
			}
			for pi, p := range b.Preds {
				if p == prev {
					m[ph.Comment] = x.get(fr, st, ph.Edges[pi])
				}
			}
		}
		return m
	}
	evalInv := func(s *state, vars map[string]val) string {
		var parts []string
		base := len(s.pc)
		for _, o := range x.evalClause(s, inv, vars) {
			t := o.ret.t.s
			if extra := o.st.pc[base:]; len(extra) > 0 {
				t = fmt.Sprintf("(=> (and %s) %s)", strings.Join(extra, " "), t)
			}
			parts = append(parts, t)
		}
		return "(and " + strings.Join(parts, " ") + ")"
	}
	kind := "inv-entry"
	if b.Dominates(prev) {
		kind = "inv-preserved"
	}
	x.obls = append(x.obls, obligation{name: fmt.Sprintf("%s/%s[loop %d]", x.target, kind, ord), pc: append([]string(nil), st.pc...), goal: evalInv(st, phiVal(false))})
	if kind == "inv-preserved" {
		return true
	}
	// havoc: loop-carried variables and every heap array stored to inside the loop
	for _, in := range b.Instrs {
		if ph, ok := in.(*ssa.Phi); ok {
			fr.regs[ph] = val{t: x.freshVar("loop_"+ph.Comment, ph.Type())}
		}
	}
	for _, lb := range b.Parent().Blocks {
		if !b.Dominates(lb) {
			continue
		}
		for _, in := range lb.Instrs {
			if stI, ok := in.(*ssa.Store); ok {
				switch a := stI.Addr.(type) {
				case *ssa.IndexAddr:
					k, _ := x.elemArr(st, a.Type().Underlying().(*types.Pointer).Elem())
					x.fresh++
					es, _ := x.sortOf(a.Type().Underlying().(*types.Pointer).Elem())
					n := fmt.Sprintf("E_%s!loop%d", k, x.fresh)
					x.declare(n, fmt.Sprintf("(Array (_ BitVec 64) (Array (_ BitVec 64) %s))", es))
					st.heap[k] = n
				case *ssa.FieldAddr:
					key, ft := fieldKey(a.X.Type().Underlying().(*types.Pointer).Elem(), a.Field)
					x.fresh++
					es, _ := x.sortOf(ft)
					n := fmt.Sprintf("H_%s!loop%d", key, x.fresh)
					x.declare(n, fmt.Sprintf("(Array (_ BitVec 64) %s)", es))
					st.heap[key] = n
				}
			}
		}
	}
	st.pc = append(st.pc, evalInv(st, phiVal(true)))
	return false
}

func (x *ctx) execFrom(st *state, fr *frame, b *ssa.BasicBlock, idx int, prev *ssa.BasicBlock, depth int) []outcome {
	skipPhis := false
	if idx == 0 && prev != nil && isLoopHeader(b) {
		if x.loopRule(st, fr, b, prev) {
			return nil
		}
		skipPhis = true
	}
	for i := idx; i < len(b.Instrs); i++ {
		if _, isPhi := b.Instrs[i].(*ssa.Phi); isPhi && skipPhis {
			continue
		}
		switch in := b.Instrs[i].(type) {
		case *ssa.DebugRef:
		case *ssa.Phi:
			for pi, p := range b.Preds {
				if p == prev {
					fr.regs[in] = x.get(fr, st, in.Edges[pi])
				}
			}
		case *ssa.BinOp:
			fr.regs[in] = val{t: x.binop(in, x.get(fr, st, in.X).t, x.get(fr, st, in.Y).t)}
		case *ssa.UnOp:
			a := x.get(fr, st, in.X)
			switch in.Op {
			case token.NOT:
				fr.regs[in] = val{t: term{s: "(not " + a.t.s + ")", k: "bool"}}
			case token.SUB:
				fr.regs[in] = val{t: term{s: "(bvneg " + a.t.s + ")", w: a.t.w, k: "bv"}}
			case token.XOR:
				fr.regs[in] = val{t: term{s: "(bvnot " + a.t.s + ")", w: a.t.w, k: "bv"}}
			case token.MUL:
				fr.regs[in] = x.load(st, a, in.Type())
			default:
				panic("unop " + in.Op.String())
			}
		case *ssa.ChangeType:
			fr.regs[in] = x.get(fr, st, in.X)
		case *ssa.Convert:
			a := x.get(fr, st, in.X).t
			_, to := x.sortOf(in.Type())
			switch {
			case to.w == a.w:
				to.s = a.s
			case to.w < a.w:
				to.s = fmt.Sprintf("((_ extract %d 0) %s)", to.w-1, a.s)
			case isUnsigned(in.X.Type()):
				to.s = fmt.Sprintf("((_ zero_extend %d) %s)", to.w-a.w, a.s)
			default:
				to.s = fmt.Sprintf("((_ sign_extend %d) %s)", to.w-a.w, a.s)
			}
			fr.regs[in] = val{t: to}
		case *ssa.FieldAddr:
			base := x.get(fr, st, in.X)
			key, ft := fieldKey(in.X.Type().Underlying().(*types.Pointer).Elem(), in.Field)
			fr.regs[in] = val{isPtr: true, l: loc{base: base.t.s, field: key, typ: ft}}
		case *ssa.IndexAddr:
			sl := x.get(fr, st, in.X)
			ix := x.get(fr, st, in.Index).t
			elem := in.Type().Underlying().(*types.Pointer).Elem()
			if !x.spec { // safety obligation: index in bounds (Go panics otherwise)
				x.obls = append(x.obls, obligation{name: fmt.Sprintf("%s/in-bounds@%s", x.target, in.Name()), pc: append([]string(nil), st.pc...),
					goal: fmt.Sprintf("(and (bvsge %s %s) (bvslt %s %s))", ix.s, bvlit(0, 64), ix.s, x.sliceLen(st, sl.t.s))})
			}
			fr.regs[in] = val{isPtr: true, l: loc{base: sl.t.s, idx: ix.s, typ: elem}}
		case *ssa.Alloc:
			x.fresh++
			id := x.fresh
			fr.regs[in] = val{isPtr: true, l: loc{cell: id, typ: in.Type().Underlying().(*types.Pointer).Elem()}}
		case *ssa.Store:
			p := x.get(fr, st, in.Addr)
			v := x.get(fr, st, in.Val)
			if p.l.cell > 0 {
				st.cells[p.l.cell] = v
			} else if p.l.idx != "" {
				k, e := x.elemArr(st, p.l.typ)
				st.heap[k] = fmt.Sprintf("(store %s %s (store (select %s %s) %s %s))", e, p.l.base, e, p.l.base, p.l.idx, v.t.s)
			} else {
				arr := x.heapArr(st, p.l.field, p.l.typ)
				st.heap[p.l.field] = fmt.Sprintf("(store %s %s %s)", arr, p.l.base, v.t.s)
			}
		case *ssa.MakeClosure:
			v := val{fn: in.Fn.(*ssa.Function)}
			for _, b := range in.Bindings {
				v.bind = append(v.bind, x.get(fr, st, b))
			}
			fr.regs[in] = v
		case *ssa.Extract:
			fr.regs[in] = x.get(fr, st, in.Tuple).tuple[in.Index]
		case *ssa.MakeInterface, *ssa.ChangeInterface:
			var opnd ssa.Value
			if mi, ok := in.(*ssa.MakeInterface); ok {
				opnd = mi.X
			} else {
				opnd = in.(*ssa.ChangeInterface).X
			}
			fr.regs[in.(ssa.Value)] = x.get(fr, st, opnd)
		case *ssa.Call:
			outs := x.call(st, fr, in, depth)
			if outs == nil { // straight-line result already bound
				continue
			}
			var res []outcome
			for _, o := range outs {
				nfr := &frame{fn: fr.fn, regs: map[ssa.Value]val{}}
				for k, v := range fr.regs {
					nfr.regs[k] = v
				}
				nfr.regs[in] = o.ret
				res = append(res, x.execFrom(o.st, nfr, b, i+1, prev, depth)...)
			}
			return res
		case *ssa.If:
			c := x.get(fr, st, in.Cond).t
			var res []outcome
			for bi, cond := range []string{c.s, "(not " + c.s + ")"} {
				if cond == "false" || cond == "(not true)" {
					continue
				}
				ns := st.clone()
				ns.pc = append(ns.pc, cond)
				nfr := &frame{fn: fr.fn, regs: map[ssa.Value]val{}}
				for k, v := range fr.regs {
					nfr.regs[k] = v
				}
				res = append(res, x.execFrom(ns, nfr, b.Succs[bi], 0, b, depth)...)
			}
			return res
		case *ssa.Jump:
			return x.execFrom(st, fr, b.Succs[0], 0, b, depth)
		case *ssa.Return:
			var r val
			switch len(in.Results) {
			case 0:
			case 1:
				r = x.get(fr, st, in.Results[0])
			default:
				for _, e := range in.Results {
					r.tuple = append(r.tuple, x.get(fr, st, e))
				}
			}
			if depth == 0 {
				x.npaths++
			}
			return []outcome{{st, r}}
		case *ssa.Panic:
			return nil // abrupt termination: no postcondition on this path
		default:
			panic(fmt.Sprintf("unsupported instruction %T in %s: %s", in, fr.fn.Name(), in))
		}
	}
	panic("fell off block")
}

func (x *ctx) elemArr(st *state, elem types.Type) (string, string) {
	es, _ := x.sortOf(elem)
	key := "elem_" + strings.NewReplacer("(", "", ")", "", " ", "_").Replace(es)
	if _, ok := st.heap[key]; !ok {
		x.declare("E_"+key, fmt.Sprintf("(Array (_ BitVec 64) (Array (_ BitVec 64) %s))", es))
		st.heap[key] = "E_" + key
	}
	return key, st.heap[key]
}

func (x *ctx) sliceLen(st *state, ref string) string {
	if _, ok := st.heap["slicelen"]; !ok {
		x.declare("H_slicelen", "(Array (_ BitVec 64) (_ BitVec 64))")
		st.heap["slicelen"] = "H_slicelen"
	}
	l := fmt.Sprintf("(select %s %s)", st.heap["slicelen"], ref)
	return l
}

func (x *ctx) load(st *state, p val, t types.Type) val {
	if !p.isPtr {
		panic("load of non-pointer")
	}
	if p.l.cell > 0 {
		if v, ok := st.cells[p.l.cell]; ok {
			return v
		}
		return val{t: x.zero(p.l.typ)}
	}
	if p.l.idx != "" {
		_, e := x.elemArr(st, p.l.typ)
		_, tm := x.sortOf(p.l.typ)
		tm.s = fmt.Sprintf("(select (select %s %s) %s)", e, p.l.base, p.l.idx)
		return val{t: tm}
	}
	arr := x.heapArr(st, p.l.field, p.l.typ)
	_, tm := x.sortOf(p.l.typ)
	tm.s = fmt.Sprintf("(select %s %s)", arr, p.l.base)
	return val{t: tm}
}

func (x *ctx) binop(in *ssa.BinOp, a, b term) term {
	uns := isUnsigned(in.X.Type())
	bv := func(op string) term { return term{s: fmt.Sprintf("(%s %s %s)", op, a.s, b.s), w: a.w, k: "bv"} }
	bo := func(op string) term { return term{s: fmt.Sprintf("(%s %s %s)", op, a.s, b.s), k: "bool"} }
	pick := func(u, s string) string {
		if uns {
			return u
		}
		return s
	}
	// shift counts may have another width
	if in.Op == token.SHL || in.Op == token.SHR {
		if b.w < a.w {
			b = term{s: fmt.Sprintf("((_ zero_extend %d) %s)", a.w-b.w, b.s), w: a.w}
		} else if b.w > a.w {
			// saturate: if count >= width the result is 0 / sign fill, which bvshl/bvlshr/bvashr give when the count is large
			b = term{s: fmt.Sprintf("(ite (bvuge %s %s) %s ((_ extract %d 0) %s))", b.s, bvlit(uint64(a.w), b.w), bvlit(uint64(a.w), a.w), a.w-1, b.s), w: a.w}
		}
	}
	switch in.Op {
	case token.ADD:
		return bv("bvadd")
	case token.SUB:
		return bv("bvsub")
	case token.MUL:
		return bv("bvmul")
	case token.QUO:
		return bv(pick("bvudiv", "bvsdiv"))
	case token.REM:
		return bv(pick("bvurem", "bvsrem"))
	case token.AND:
		if a.k == "bool" {
			return bo("and")
		}
		return bv("bvand")
	case token.OR:
		if a.k == "bool" {
			return bo("or")
		}
		return bv("bvor")
	case token.XOR:
		return bv("bvxor")
	case token.AND_NOT:
		return term{s: fmt.Sprintf("(bvand %s (bvnot %s))", a.s, b.s), w: a.w, k: "bv"}
	case token.SHL:
		return bv("bvshl")
	case token.SHR:
		return bv(pick("bvlshr", "bvashr"))
	case token.EQL:
		return bo("=")
	case token.NEQ:
		return bo("distinct")
	case token.LSS:
		return bo(pick("bvult", "bvslt"))
	case token.LEQ:
		return bo(pick("bvule", "bvsle"))
	case token.GTR:
		return bo(pick("bvugt", "bvsgt"))
	case token.GEQ:
		return bo(pick("bvuge", "bvsge"))
	}
	panic("binop " + in.Op.String())
}

// call returns nil when the result has been bound in fr.regs (no path split), else the outcomes.
func (x *ctx) call(st *state, fr *frame, in *ssa.Call, depth int) []outcome {
	c := in.Common()
	args := func() []val {
		var r []val
		for _, a := range c.Args {
			r = append(r, x.get(fr, st, a))
		}
		return r
	}
	if c.IsInvoke() { // interface contract of node.Node (spike: three methods)
		recv := x.get(fr, st, c.Value).t.s
		a := args()
		exp := x.heapArr(st, "node_expiresAt", types.Typ[types.Int64])
		switch c.Method.Name() {
		case "NowNano": // A-clock: non-negative
			t := x.freshVar("now", types.Typ[types.Int64])
			st.pc = append(st.pc, fmt.Sprintf("(bvsge %s %s)", t.s, bvlit(0, 64)))
			st.ghost["now"] = t.s
			fr.regs[in] = val{t: t}
		case "Value":
			vs, vt := x.sortOf(in.Type())
			_ = vs
			arr := x.heapArr(st, "node_value", in.Type())
			vt.s = fmt.Sprintf("(select %s %s)", arr, recv)
			fr.regs[in] = val{t: vt}
		case "ExpiresAt":
			fr.regs[in] = val{t: term{s: fmt.Sprintf("(select %s %s)", exp, recv), w: 64, k: "bv"}}
		case "HasExpired":
			fr.regs[in] = val{t: term{s: fmt.Sprintf("(bvsle (select %s %s) %s)", exp, recv, a[0].t.s), k: "bool"}}
		case "CASExpiresAt":
			ok := fmt.Sprintf("(= (select %s %s) %s)", exp, recv, a[0].t.s)
			st.heap["node_expiresAt"] = fmt.Sprintf("(ite %s (store %s %s %s) %s)", ok, exp, recv, a[1].t.s, exp)
			fr.regs[in] = val{t: term{s: ok, k: "bool"}}
		default:
			panic("no interface contract for " + c.Method.Name())
		}
		return nil
	}
	if bi, ok := c.Value.(*ssa.Builtin); ok && bi.Name() == "len" {
		ref := x.get(fr, st, c.Args[0]).t.s
		l := x.sliceLen(st, ref)
		st.pc = append(st.pc, fmt.Sprintf("(bvsge %s %s)", l, bvlit(0, 64)))
		fr.regs[in] = val{t: term{s: l, w: 64, k: "bv"}}
		return nil
	}
	callee := c.StaticCallee()
	if callee != nil && callee.Pkg != nil && callee.Pkg.Pkg.Path() == "math/bits" { // built-in model (spike: uninterpreted)
		fr.regs[in] = val{t: x.freshVar("bits_"+callee.Name(), in.Type())}
		return nil
	}
	if callee == nil { // call of an unknown function value (p.rand): user-callback rule, arbitrary result
		fr.regs[in] = val{t: x.freshVar("ret_dyn", in.Type())}
		return nil
	}
	name := callee.Name()
	if o := callee.Origin(); o != nil {
		name = o.Name()
		callee = o
	}
	a := args()
	g := func(key, dflt string) string {
		if v, ok := st.ghost[key]; ok {
			return v
		}
		return dflt
	}
	switch name {
	case "ghostPresent":
		fr.regs[in] = val{t: term{s: g("present", "false"), k: "bool"}}
		return nil
	case "ghostSeen":
		fr.regs[in] = val{t: term{s: g("seen", bvlit(0, 64)), w: 64, k: "ref"}}
		return nil
	case "ghostInstalled":
		fr.regs[in] = val{t: term{s: g("installed", bvlit(0, 64)), w: 64, k: "ref"}}
		return nil
	case "ghostAfterWrites":
		fr.regs[in] = val{t: term{s: g("afterWrites", bvlit(0, 64)), w: 64, k: "bv"}}
		return nil
	case "specValue":
		arr := x.heapArr(st, "node_value", in.Type())
		_, vt := x.sortOf(in.Type())
		vt.s = fmt.Sprintf("(select %s %s)", arr, a[0].t.s)
		fr.regs[in] = val{t: vt}
		return nil
	case "Compute": // assumed contract A-table: callback exactly once on M[key], result stored
		ks, _ := x.sortOf(c.Args[1].Type())
		if _, ok := st.heap["M"]; !ok {
			x.declare("M", fmt.Sprintf("(Array %s (_ BitVec 64))", ks))
			st.heap["M"] = "M"
		}
		cur := fmt.Sprintf("(select %s %s)", st.heap["M"], a[1].t.s)
		exp := x.heapArr(st, "node_expiresAt", types.Typ[types.Int64])
		st.ghost["seen"] = cur
		st.ghost["present"] = fmt.Sprintf("(and (distinct %s %s) (not (bvsle (select %s %s) %s)))", cur, bvlit(0, 64), exp, cur, g("now", bvlit(0, 64)))
		cl := a[2]
		nfr := &frame{fn: cl.fn, regs: map[ssa.Value]val{}}
		for i, fv := range cl.fn.FreeVars {
			nfr.regs[fv] = cl.bind[i]
		}
		nfr.regs[cl.fn.Params[0]] = val{t: term{s: cur, w: 64, k: "ref"}}
		outs := x.execFrom(st, nfr, cl.fn.Blocks[0], 0, nil, depth+1)
		for i := range outs {
			o := &outs[i]
			o.st.heap["M"] = fmt.Sprintf("(store %s %s %s)", o.st.heap["M"], a[1].t.s, o.ret.t.s)
			o.st.ghost["installed"] = o.ret.t.s
			if x.itf { // other goroutines may move deadlines once the bucket lock is released
				h := x.freshVar("H_node_expiresAt_itf", types.NewPointer(types.Typ[types.Int64]))
				_ = h
				x.fresh++
				name := fmt.Sprintf("H_node_expiresAt!itf%d", x.fresh)
				x.declare(name, "(Array (_ BitVec 64) (_ BitVec 64))")
				o.st.heap["node_expiresAt"] = name
			}
		}
		return outs
	case "atomicSet": // contract: fresh alive node holding (key, value)
		n := x.freshVar("newnode", c.Args[3].Type())
		st.pc = append(st.pc, fmt.Sprintf("(distinct %s %s)", n.s, bvlit(0, 64)), fmt.Sprintf("(distinct %s %s)", n.s, a[3].t.s))
		arr := x.heapArr(st, "node_value", c.Args[2].Type())
		st.heap["node_value"] = fmt.Sprintf("(store %s %s %s)", arr, n.s, a[2].t.s)
		fr.regs[in] = val{t: n}
		return nil
	case "calcExpiresAtAfterRead": // modifies expiresAt(n)
		exp := x.heapArr(st, "node_expiresAt", types.Typ[types.Int64])
		nv := x.freshVar("newdeadline", types.Typ[types.Int64])
		st.heap["node_expiresAt"] = fmt.Sprintf("(store %s %s %s)", exp, a[1].t.s, nv.s)
		fr.regs[in] = val{}
		return nil
	case "afterWrite":
		st.ghost["afterWrites"] = fmt.Sprintf("(bvadd %s %s)", g("afterWrites", bvlit(0, 64)), bvlit(1, 64))
		fr.regs[in] = val{}
		return nil
	case "afterRead":
		fr.regs[in] = val{}
		return nil
	case "implies":
		fr.regs[in] = val{t: term{s: fmt.Sprintf("(=> %s %s)", a[0].t.s, a[1].t.s), k: "bool"}}
		return nil
	case "same":
		fr.regs[in] = val{t: term{s: fmt.Sprintf("(= %s %s)", a[0].t.s, a[1].t.s), k: "bool"}}
		return nil
	case "specElem":
		_, e := x.elemArr(st, types.Typ[types.Uint64])
		tbl := x.heapArr(st, "sketch_table", types.NewSlice(types.Typ[types.Uint64]))
		fr.regs[in] = val{t: term{s: fmt.Sprintf("(select (select %s (select %s %s)) %s)", e, tbl, a[0].t.s, a[1].t.s), w: 64, k: "bv"}}
		return nil
	case "specLen":
		tbl := x.heapArr(st, "sketch_table", types.NewSlice(types.Typ[types.Uint64]))
		fr.regs[in] = val{t: term{s: x.sliceLen(st, fmt.Sprintf("(select %s %s)", tbl, a[0].t.s)), w: 64, k: "bv"}}
		return nil
	case "specExpiresAt":
		exp := x.heapArr(st, "node_expiresAt", types.Typ[types.Int64])
		fr.regs[in] = val{t: term{s: fmt.Sprintf("(select %s %s)", exp, a[0].t.s), w: 64, k: "bv"}}
		return nil
	case "specFreq", "frequency": // contract of (*sketch).frequency: result == est(s, k), est <= 15
		ks, _ := x.sortOf(c.Args[1].Type())
		fn := "est_" + strings.NewReplacer("(", "", ")", "", " ", "_").Replace(ks)
		if !x.seen[fn] {
			x.seen[fn] = true
			x.decls = append(x.decls, fmt.Sprintf("(declare-fun %s ((_ BitVec 64) %s) (_ BitVec 64))", fn, ks))
		}
		t := fmt.Sprintf("(%s %s %s)", fn, a[0].t.s, a[1].t.s)
		st.pc = append(st.pc, fmt.Sprintf("(bvule %s %s)", t, bvlit(15, 64)))
		fr.regs[in] = val{t: term{s: t, w: 64, k: "bv"}}
		return nil
	}
	if callee.Blocks == nil || depth > 3 {
		panic("no body / too deep: " + name)
	}
	// in-repo callee without contract: inline (xmath.Abs, satadd)
	nfr := &frame{fn: callee, regs: map[ssa.Value]val{}}
	for i, p := range callee.Params {
		nfr.regs[p] = a[i]
	}
	return x.execFrom(st, nfr, callee.Blocks[0], 0, nil, depth+1)
}

// ---------------------------------------------------------------- driver

type result struct {
	name   string
	status string
	ms     int64
	model  string
}

func (x *ctx) lookup(name string) *ssa.Function {
	if f := x.pkg.Func(name); f != nil {
		return f
	}
	for _, m := range x.pkg.Members {
		if t, ok := m.(*ssa.Type); ok {
			if named, ok := t.Type().(*types.Named); ok {
				for i := 0; i < named.NumMethods(); i++ {
					if named.Method(i).Name() == name {
						return x.prog.FuncValue(named.Method(i))
					}
				}
			}
		}
	}
	return nil
}

// evalClause runs a clause function on state s; parameters are bound by NAME: target parameters,
// then the given variables (results, old0, loop-carried variables), then per-verification skolem constants.
func (x *ctx) evalClause(s *state, cf *ssa.Function, vars map[string]val) []outcome {
	cfr := &frame{fn: cf, regs: map[ssa.Value]val{}}
	for _, p := range cf.Params {
		if v, ok := vars[p.Name()]; ok {
			cfr.regs[p] = v
		} else if v, ok := x.bindBy(s, p.Name(), p.Type()); ok {
			cfr.regs[p] = v
		} else {
			if _, ok := x.skolem[p.Name()]; !ok {
				x.skolem[p.Name()] = val{t: x.freshVar("sk_"+p.Name(), p.Type())}
			}
			cfr.regs[p] = x.skolem[p.Name()]
		}
	}
	was := x.spec
	x.spec = true
	defer func() { x.spec = was }()
	return x.execFrom(s.clone(), cfr, cf.Blocks[0], 0, nil, 1)
}

func verify(prog *ssa.Program, pkg *ssa.Package, target string, ensures []string, itf bool) []result {
	x := &ctx{seen: map[string]bool{}, sorts: map[string]bool{}, prog: prog, pkg: pkg, itf: itf, target: target, skolem: map[string]val{}}
	fn := x.lookup(target)
	if fn == nil {
		panic("no function " + target)
	}
	st := &state{heap: map[string]string{}, cells: map[int]val{}, ghost: map[string]string{}, x: x}
	fr := &frame{fn: fn, regs: map[ssa.Value]val{}}
	byName := map[string]val{}
	var params []val
	for _, p := range fn.Params {
		v := val{t: x.freshVar("arg_"+p.Name(), p.Type())}
		fr.regs[p] = v
		params = append(params, v)
		byName[p.Name()] = v
	}
	x.bindBy = func(_ *state, name string, _ types.Type) (val, bool) { v, ok := byName[name]; return v, ok }
	clause := func(name string) *ssa.Function {
		cf := pkg.Func(name)
		if cf == nil {
			panic("no clause " + name)
		}
		return cf
	}
	conj := func(s *state, cf *ssa.Function, vars map[string]val) string {
		var parts []string
		base := len(s.pc)
		for _, o := range x.evalClause(s, cf, vars) {
			t := o.ret.t.s
			if extra := o.st.pc[base:]; len(extra) > 0 {
				t = fmt.Sprintf("(=> (and %s) %s)", strings.Join(extra, " "), t)
			}
			parts = append(parts, t)
		}
		return "(and " + strings.Join(parts, " ") + ")"
	}
	// requires: assumed; pre-state values captured (old0, len0)
	st.pc = append(st.pc, conj(st, clause("_req_"+target), nil))
	byName["old0"] = x.evalClause(st, clause("_pre_"+target), nil)[0].ret
	if lf := pkg.Func("specLen"); lf != nil && target == "reset" {
		byName["len0"] = x.evalClause(st, lf, nil)[0].ret
	}
	outs := x.execFrom(st, fr, fn.Blocks[0], 0, nil, 0)
	var gv []string
	for _, p := range params {
		if p.t.k == "bv" || p.t.k == "bool" {
			gv = append(gv, p.t.s)
		}
	}
	check := func(pc []string, goal string) (string, string) {
		var b bytes.Buffer
		b.WriteString("(set-option :produce-models true)\n(set-logic ALL)\n")
		for _, d := range x.decls {
			b.WriteString(d + "\n")
		}
		for _, p := range pc {
			b.WriteString("(assert " + p + ")\n")
		}
		b.WriteString("(assert (not " + goal + "))\n(check-sat)\n")
		return solve(b.String(), gv)
	}
	var results []result
	// safety and loop obligations recorded during execution
	for _, o := range x.obls {
		start := time.Now()
		r := result{name: o.name, status: "discharged"}
		if sat, model := check(o.pc, o.goal); sat != "unsat" {
			r.status, r.model = "FAILED ("+sat+")", model
		}
		r.ms = time.Since(start).Milliseconds()
		results = append(results, r)
	}
	for _, e := range ensures {
		r := result{name: target + "/ensures[" + e + "]", status: "discharged"}
		start := time.Now()
		for pi, o := range outs {
			vars := map[string]val{}
			switch {
			case fn.Signature.Results().Len() == 1:
				vars["result"] = o.ret
			case fn.Signature.Results().Len() > 1:
				for i, v := range o.ret.tuple {
					vars[fmt.Sprintf("r%d", i)] = v
				}
			}
			if sat, model := check(o.st.pc, conj(o.st, clause("_ens_"+target+"_"+e), vars)); sat != "unsat" {
				r.status = fmt.Sprintf("FAILED (%s) on path %d", sat, pi)
				r.model = model
			}
		}
		r.ms = time.Since(start).Milliseconds()
		results = append(results, r)
	}
	fmt.Printf("%-28s paths=%d decls=%d obligations=%d\n", target, x.npaths, len(x.decls), len(x.obls)+len(ensures))
	return results
}

func solve(script string, getvals []string) (string, string) {
	run := func(s string) string {
		cmd := exec.Command("z3-new", "-in", "-T:20")
		cmd.Stdin = strings.NewReader(s)
		out, _ := cmd.CombinedOutput()
		return string(out)
	}
	out := run(script)
	first := strings.TrimSpace(strings.SplitN(out, "\n", 2)[0])
	if first == "sat" && len(getvals) > 0 {
		sort.Strings(getvals)
		out2 := run(script + "(get-value (" + strings.Join(getvals, " ") + "))\n")
		return first, strings.Join(strings.Fields(strings.SplitN(out2, "\n", 2)[1]), " ")
	}
	return first, ""
}

func main() {
	repo := flag.String("repo", "/repo", "repository root")
	flag.Parse()
	t0 := time.Now()
	cfg := &packages.Config{Mode: packages.LoadAllSyntax, Dir: *repo, BuildFlags: []string{"-tags=verif"},
		Overlay: map[string][]byte{*repo + "/zz_verif_synth.go": []byte(synth)}}
	pkgs, err := packages.Load(cfg, ".")
	if err != nil {
		panic(err)
	}
	if packages.PrintErrors(pkgs) > 0 {
		os.Exit(2)
	}
	prog, spkgs := ssautil.AllPackages(pkgs, 0)
	prog.Build()
	fmt.Printf("load+ssa: %d ms\n", time.Since(t0).Milliseconds())
	var all []result
	all = append(all, verify(prog, spkgs[0], "setExpiresAfterRead", []string{"exact", "keep", "exactNoOvf"}, false)...)
	all = append(all, verify(prog, spkgs[0], "admit", []string{"greaterAdmits", "coldNeverAdmitted"}, false)...)
	setE := []string{"retAbsent", "retPresent", "afterWriteIffInstalled", "installs"}
	for _, r := range verify(prog, spkgs[0], "set", setE, false) {
		r.name += "[seq]"
		all = append(all, r)
	}
	for _, r := range verify(prog, spkgs[0], "set", setE, true) {
		r.name += "[itf]"
		all = append(all, r)
	}
	all = append(all, verify(prog, spkgs[0], "reset", []string{"halves"}, false)...)
	for _, r := range all {
		fmt.Printf("  %-58s %-28s %4d ms  %s\n", r.name, r.status, r.ms, r.model)
	}
}
