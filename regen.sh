#!/bin/bash
# Regenerates expected-obligation lists and evidence for every claimed property on the current tree (unchanged /repo).
# usage: ./regen.sh [property ids...]
cd /verif || exit 1
export GOFLAGS=-mod=mod GOPROXY=off
./setup.sh || exit 1
props=${@:-$(python3 -c "import json;print(' '.join(c['property_id'] for c in json.load(open('MANIFEST.json'))['checks']))")}
rc=0
for p in $props; do
  # `expect` is a full check run that also rewrites the expected-obligation list; it writes the evidence file too
  ./bin/govc expect -prop $p -tier quick | tail -1 || rc=1
done
exit $rc
