#!/bin/sh
# Copies the contract files (mirror under /verif/contracts) into the repository tree, where they live as
# verif_contracts.go behind the build tag "verif". Commit the result in /repo as a hook commit.
cd /verif/contracts || exit 1
find . -name verif_contracts.go | while read f; do mkdir -p "/repo/$(dirname $f)"; cp "$f" "/repo/$f"; done
cd /repo && git status --short | head
